"""Bounded stand-in (never counted as proved): render the REAL templates through the REAL jinja2 exactly as executor.write_cpp_files
does (Environment(loader=FileSystemLoader(dir)), no autoescape) with lines drawn from a pool of template-special strings."""
import itertools
import os
import random
import jinja2

REPO = os.environ.get("PYVC_REPO", "/repo")
POOL = ["x;", "{{ y }}", "{% raw %}", "#} z", "a < b && c", '"q"', "tab\there", "&amp;", "'s'"]
SLOTS = ["query_code", "class_decl", "book_code", "body_include_files", "header_include_files", "private_members",
         "instance_initialization", "initialize_lines", "ctor_lines", "link_libraries", "job_option_additions"]


def render(tdir, fname, info):
    env = jinja2.Environment(loader=jinja2.FileSystemLoader(os.path.join(REPO, tdir)))
    return env.get_template(fname).render(info)


def cases(n, seed):
    rnd = random.Random(seed)
    # exhaustive over single special strings per slot, then random mixtures
    for s in POOL:
        yield {k: [s] for k in SLOTS}
    for _ in range(n):
        yield {k: [rnd.choice(POOL) + str(i) for i in range(rnd.choice([0, 1, 2, 3]))] for k in SLOTS}


def check_slot(text, lines, what):
    "every line occurs exactly once, in order, unaltered"
    pos = 0
    for ln in lines:
        c = text.count(ln)
        if c != 1:
            return "%s: line %r occurs %d times in the rendered file (expected exactly once)" % (what, ln, c)
        p = text.find(ln)
        if p < pos:
            return "%s: line %r is rendered out of order" % (what, ln)
        pos = p
    return None
