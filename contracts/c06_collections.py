# C06 -- event collections are fetched by the requested bank, type and backend idiom.
# The call e.<Collection>("bank") is rewritten by event_collection_coder.get_collection into a call whose func is a CPPCodeValue
# (formal parameter `collection_name`, actual argument = the bank literal); process_ast_node (c11_inject.py) then substitutes the
# C++ string literal of the bank (visit_Constant, c18) for `collection_name` in the backend's retrieval code.
EC = "func_adl_xAOD.common.event_collections."
ATLAS_EC = "func_adl_xAOD.atlas.xaod.event_collections."
AOD_EC = "func_adl_xAOD.cms.aod.event_collections."
MINI_EC = "func_adl_xAOD.cms.miniaod.event_collections."
CODER = RefOf(EC + "event_collection_coder")
COLL_T = "func_adl_xAOD.common.cpp_types.collection"
ECC_COLL = EC + "event_collection_collection_container"
field("_ecc", CODER, cls="func_adl_xAOD.common.executor.executor")


def type_name(t):
    "the C++ type name a type object was built from (terminal.type)"
    return field(t, "_type", "func_adl_xAOD.common.cpp_types.terminal")


# ---- str() of the container types: the text of the C++ declaration of the retrieved object ------------------------------
for _qn, _pre, _post in [(ATLAS_EC + "atlas_xaod_event_collection_container", "const ", " *"),
                         (ATLAS_EC + "atlas_xaod_event_collection_collection", "const ", "*"),
                         (AOD_EC + "cms_aod_event_collection_collection", "edm::Handle<", ">"),
                         (MINI_EC + "cms_miniaod_event_collection_collection", "Handle<", ">")]:
    contract(_qn + ".__str__", props=["C06"], params=dict(self=RefOf(_qn)), result=Str,
             ensures=[("declaration_text", "result == '%s' + type_name(self) + '%s'" % (_pre, _post))])
contract(MINI_EC + "cms_miniaod_event_collection_collection.token_type", props=["C06"],
         params=dict(self=RefOf(MINI_EC + "cms_miniaod_event_collection_collection")), result=Str,
         ensures=[("token_of_the_container_type", "result == 'edm::EDGetTokenT<' + type_name(self) + '>'")])

# ---- the retrieval idiom of each backend ----------------------------------------------------------------------------
# str(container_type) is seen through the ghost function type_str (c02_emit.py: verif.TypeText.__str__, the virtual contract of
# __str__ on type objects); its value for each container class of the three back ends is proved above (declaration_text).
contract(ATLAS_EC + "atlas_event_collection_coder.get_running_code", props=["C06"],
         params=dict(self=CODER, container_type=TERM), result=TList(Str),
         requires=["container_type != None and live(container_type)"],
         ensures=[("atlas_status_checked_retrieve", "len(result) == 2 and result[0] == type_str(container_type) + ' result = 0;' and "
                                                    "result[1] == 'ANA_CHECK (evtStore()->retrieve(result, collection_name));'")])
contract(AOD_EC + "cms_event_collection_coder.get_running_code", props=["C06"],
         params=dict(self=CODER, container_type=TERM), result=TList(Str),
         requires=["container_type != None and live(container_type)"],
         ensures=[("cms_aod_by_label", "len(result) == 2 and result[0] == type_str(container_type) + ' result;' and "
                                       "result[1] == 'iEvent.getByLabel(collection_name, result);'")])
contract(MINI_EC + "cms_event_collection_coder.get_running_code", props=["C06"],
         params=dict(self=CODER, container_type=TERM, t_name=TOpt(Str)), result=TList(Str),
         requires=["container_type != None and live(container_type)"],
         modifies=["global:func_adl_xAOD.common.cpp_vars.unique_var_index"],
         ensures=[("cms_miniaod_by_token", "len(result) == 2 and result[0] == type_str(container_type) + ' result;' and "
                                           "implies(t_name != None, result[1] == 'iEvent.getByToken(' + t_name + ', result);')"),
                  ("own_token_when_none_given", "implies(t_name == None, result[1] == 'iEvent.getByToken(token' + str_from_int(old(unique_var_index)) + ', result);' "
                                                "and unique_var_index == old(unique_var_index) + 1)"),
                  ("counter", "implies(t_name != None, unique_var_index == old(unique_var_index))")])

# ---- the code value of a collection call --------------------------------------------------------------------------
CPV = RefOf(CCV)
_rc_req = ["cpv != None and live(cpv)", "md.container_type != None and live(md.container_type)"]
contract(EC + "event_collection_coder.get_running_code", virtual=True, assumed=True, params=dict(self=CODER, container_type=TERM), result=TList(Str),
         requires=["container_type != None and live(container_type)"], modifies=["global:func_adl_xAOD.common.cpp_vars.unique_var_index"],
         ensures=[("declares_the_container", "len(result) == 2 and startswith(result[0], type_str(container_type) + ' result')"),
                  ("counter", "unique_var_index >= old(unique_var_index)")],
         note="abstract; the three back-end overrides are verified above against stronger clauses")
MINI_PAIRING = "implies(isinst(self, '" + MINI_EC + "cms_event_collection_coder'), isinst(md.container_type, '" + MINI_EC + "cms_miniaod_event_collection_collection'))"
_FLD = "field(cpv, 'fields', '" + CCV + "')"
contract(EC + "event_collection_coder.get_running_code_CPPCodeValue", props=["C06"], virtual=True,
         params=dict(self=CODER, cpv=CPV, md=EventCollectionSpecification), requires=_rc_req + [("backend_pairing", MINI_PAIRING)],
         modifies=["running_code", "fields@" + CCV, "alloc", "global:func_adl_xAOD.common.cpp_vars.unique_var_index"],
         ensures=[("running_code_of_the_backend", "len(field(cpv, 'running_code')) == 2 and "
                                                  "startswith(field(cpv, 'running_code')[0], type_str(md.container_type) + ' result')"),
                  ("members_only_added", "prefix_of(old(" + _FLD + "), " + _FLD + ")"),
                  ("only_this_node", "frame('running_code', cpv) and frame('fields', cpv)"), ("counter", "unique_var_index >= old(unique_var_index)")],
         note="verified against the base body (ATLAS, CMS AOD); the miniAOD override is verified below against the same clauses plus its own")
contract(MINI_EC + "cms_event_collection_coder.get_running_code_CPPCodeValue", props=["C06", "C02"],
         params=dict(self=RefOf(MINI_EC + "cms_event_collection_coder"), cpv=CPV, md=EventCollectionSpecification),
         requires=_rc_req + ["isinst(md.container_type, '" + MINI_EC + "cms_miniaod_event_collection_collection')"],
         modifies=["running_code", "fields@" + CCV, "alloc", "global:func_adl_xAOD.common.cpp_vars.unique_var_index"],
         typing_exceptions={"_scope": "the token member is created with the CLASS gc_scope_top_level as its scope, not a scope object; "
                                      "class members are only declared (declare_class_variable) and assigned in the constructor (set_var.emit), "
                                      "neither of which reads the scope"},
         ensures=[("read_by_token", "len(field(cpv, 'running_code')) == 2 and field(cpv, 'running_code')[0] == type_str(md.container_type) + ' result;' and "
                                    "field(cpv, 'running_code')[1] == 'iEvent.getByToken(token' + str_from_int(old(unique_var_index)) + ', result);'"),
                  ("fresh_token", "unique_var_index == old(unique_var_index) + 1"),
                  ("token_declared_and_initialised_once", "len(field(cpv, 'fields', '" + CCV + "')) == len(old(field(cpv, 'fields', '" + CCV + "'))) + 1 and "
                                                          "prefix_of(old(field(cpv, 'fields', '" + CCV + "')), field(cpv, 'fields', '" + CCV + "'))"),
                  ("token_member", "is_new(field(cpv, 'fields', '" + CCV + "')[len(field(cpv, 'fields', '" + CCV + "')) - 1][0]) and "
                                   "expr_of(field(cpv, 'fields', '" + CCV + "')[len(field(cpv, 'fields', '" + CCV + "')) - 1][0]) == 'token' + str_from_int(old(unique_var_index)) and "
                                   "kind_of(field(cpv, 'fields', '" + CCV + "')[len(field(cpv, 'fields', '" + CCV + "')) - 1][0]) == 'edm::EDGetTokenT<' + type_name(md.container_type) + '>'"),
                  ("token_initialised_with_the_bank", "field(cpv, 'fields', '" + CCV + "')[len(field(cpv, 'fields', '" + CCV + "')) - 1][1] == "
                                                      "'consumes<' + type_name(md.container_type) + '>(edm::InputTag(collection_name))'"),
                  ("running_code_of_the_backend", "startswith(field(cpv, 'running_code')[0], type_str(md.container_type) + ' result')"),
                  ("members_only_added", "prefix_of(old(" + _FLD + "), " + _FLD + ")"),
                  ("only_this_node", "frame('running_code', cpv) and frame('fields', cpv)")])

# ---- get_collection: e.<Collection>("bank") -> call of a code value with formal `collection_name` and the bank literal as actual ----
def is_bank_literal(n):
    return isinst(n, "ast.Constant") and field(n, "value", "ast.Constant").kind == 1


_FN = "field(call_node, 'func')"
contract(EC + "event_collection_coder.get_collection", props=["C06", "C09"], replay={"no-raise[ValueError]": "dropped_call_arguments"},
         params=dict(self=CODER, md=EventCollectionSpecification, call_node=CALL),
         result=CALL,
         requires=["self != None and live(self)", "md.container_type != None and live(md.container_type)",
                   "all(a != None and live(a) for a in field(call_node, 'args'))", ("backend_pairing", MINI_PAIRING)],
         modifies=["func", "include_files", "link_libraries", "initialization_code", "running_code", "args@" + CCV, "replacement_instance_obj",
                   "result", "result_rep", "fields@" + CCV, "alloc", "global:func_adl_xAOD.common.cpp_vars.unique_var_index"],
         raises={"ValueError": "len(field(call_node, 'args')) != 1 or len(field(call_node, 'keywords')) > 0 or not is_bank_literal(field(call_node, 'args')[0])"},
         ensures=[("same_call_bank_is_the_only_argument", "result == call_node and seq_eq(field(call_node, 'args'), old(field(call_node, 'args'))) and "
                                                          "len(field(call_node, 'args')) == 1 and is_bank_literal(field(call_node, 'args')[0])"),
                  ("code_value", "is_new(" + _FN + ") and cls_is(" + _FN + ", '" + CCV + "')"),
                  ("bank_substituted_for_collection_name", "len(field(" + _FN + ", 'args', '" + CCV + "')) == 1 and field(" + _FN + ", 'args', '" + CCV + "')[0] == 'collection_name' and "
                                                           "field(" + _FN + ", 'replacement_instance_obj') == None"),
                  ("headers_and_libraries_of_the_container", "seq_eq(field(" + _FN + ", 'include_files'), md.include_files) and "
                                                             "seq_eq(field(" + _FN + ", 'link_libraries'), md.libraries)"),
                  ("retrieval_code_of_the_backend", "len(field(" + _FN + ", 'running_code')) == 2 and "
                                                    "startswith(field(" + _FN + ", 'running_code')[0], type_str(md.container_type) + ' result') and "
                                                    "field(" + _FN + ", 'result') == 'result'"),
                  ("only_this_call", "frame('func', call_node)")])


# ---- property lemma (ghost client: executes the REAL get_collection body, then calls the closure it stored in result_rep):
# a collection of elements is delivered as a sequence-capable collection value, a singleton collection as a plain value, both fresh
# variables of exactly the declared container type.
def client_collection_result(coder, md, call_node, scope):
    node = repo("func_adl_xAOD.common.event_collections.event_collection_coder.get_collection")(coder, md, call_node)
    v = node.func.result_rep(scope)
    return v


contract("spec:c06_collections.client_collection_result", props=["C06"],
         inline_callees=["func_adl_xAOD.common.event_collections.event_collection_coder.get_collection"],
         params=dict(coder=CODER, md=EventCollectionSpecification, call_node=CALL, scope=RefOf(SCOPE)), result=VAL,
         requires=["coder != None and live(coder)", "md.container_type != None and live(md.container_type)", "scope != None and live(scope)",
                   "all(a != None and live(a) for a in field(call_node, 'args'))",
                   "implies(isinst(coder, '" + MINI_EC + "cms_event_collection_coder'), isinst(md.container_type, '" + MINI_EC + "cms_miniaod_event_collection_collection'))"],
         modifies=["func", "include_files", "link_libraries", "initialization_code", "running_code", "args@" + CCV, "replacement_instance_obj",
                   "result", "result_rep", "fields@" + CCV, "alloc", "global:func_adl_xAOD.common.cpp_vars.unique_var_index"],
         may_raise=["ValueError"], strict=False,
         ensures=[("fresh_variable_of_the_container_type", "result != None and is_new(result) and field(result, '_scope') == scope and "
                                                           "type_of(result) == md.container_type and unique_var_index > old(unique_var_index)"),
                  ("collections_are_sequences", "implies(isinst(md.container_type, '" + ECC_COLL + "'), "
                                                "cls_is(result, 'func_adl_xAOD.common.cpp_representation.cpp_collection'))"),
                  ("singletons_are_values", "implies(not isinst(md.container_type, '" + ECC_COLL + "'), "
                                            "cls_is(result, 'func_adl_xAOD.common.cpp_representation.cpp_variable'))")])

# ---- metadata-declared collections: a declaration for another backend is refused ------------------------------------------
for _qn, _be in [("func_adl_xAOD.atlas.xaod.executor.atlas_xaod_executor", "atlas"), ("func_adl_xAOD.cms.aod.executor.cms_aod_executor", "cms_aod"),
                 ("func_adl_xAOD.cms.miniaod.executor.cms_miniaod_executor", "cms_miniaod")]:
    contract(_qn + ".build_collection_callback", props=["C06", "C09"], params=dict(self=RefOf(_qn), metadata=EventCollectionSpecification), result=Func,
             raises={"ValueError": "metadata.backend_name != '%s'" % _be},
             ensures=[("a_callback", "result != None")])

# ---- the built-in collection tables: each backend's table pairs its own name with its own container classes --------------------
for _mod, _tab, _be, _classes in [
        (ATLAS_EC, "atlas_xaod_collections", "atlas", [ATLAS_EC + "atlas_xaod_event_collection_container", ATLAS_EC + "atlas_xaod_event_collection_collection"]),
        (AOD_EC, "cms_aod_collections", "cms_aod", [AOD_EC + "cms_aod_event_collection_collection"]),
        (MINI_EC, "cms_miniaod_collections", "cms_miniaod", [MINI_EC + "cms_miniaod_event_collection_collection"])]:
    glob(_mod + _tab, TList(EventCollectionSpecification))
    contract(_mod + "<module>", props=["C06"], params={},
             modifies=["global:" + _mod + _tab, "_type", "_p_depth", "_is_const", "_tree_type", "_element_type", "alloc",
                       "global:func_adl_xAOD.common.cpp_vars.unique_var_index"],
             ensures=[("table_not_empty", "len(%s) >= 1" % _tab),
                      ("own_backend", "all(s.backend_name == '%s' for s in %s)" % (_be, _tab)),
                      ("own_container_classes", "all(s.container_type != None and (%s) for s in %s)"
                       % (" or ".join("cls_is(s.container_type, '%s')" % c for c in _classes), _tab)),
                      ("names_distinct", "all(implies(%s[i].name == %s[j].name, i == j) for i in range(0, len(%s)) for j in range(0, len(%s)))" % (_tab, _tab, _tab, _tab))])
