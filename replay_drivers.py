"""Replay drivers: run the REAL code of /repo (PYTHONPATH is set by the caller) on concrete inputs.
Used (a) to turn a refuted obligation on a heap-shaped function into a concrete failing input (small exhaustive search
around the solver's counter-model), (b) as witnesses of known findings / fixed findings.
usage: replay_drivers.py <driver> '<json args>'   ->  last stdout line: {"violates": bool, "detail": str}"""
import json
import sys

DRIVERS = {}


def driver(f):
    DRIVERS[f.__name__] = f
    return f


def deref(e, n):
    return e if n <= 0 else "(*" + deref(e, n - 1) + ")"


def member_access(e, depth):
    return e + "." if depth <= 0 else deref(e, depth - 1) + "->"


@driver
def base_type_member_access(args):
    import func_adl_xAOD.common.cpp_representation as crep
    import func_adl_xAOD.common.cpp_types as ctyp
    from func_adl_xAOD.common.util_scope import top_level_scope
    for p in range(0, 5):
        for extra in range(0, 4):
            v = crep.cpp_value("x", top_level_scope(), ctyp.terminal("T", p_depth=p))
            got = crep.base_type_member_access(v, extra)
            want = member_access("x", p + extra)
            if got != want:
                return True, "base_type_member_access(cpp_value('x', T with p_depth=%d), extra_deref=%d) == %r, expected %r" % (p, extra, got, want)
    return False, "member access correct for p_depth 0..4 x extra_deref 0..3"


@driver
def most_accurate_type(args):
    import itertools
    import func_adl_xAOD.common.cpp_types as ctyp
    from func_adl_xAOD.common.utils import most_accurate_type as mat
    rank = {"int": 0, "float": 1, "double": 2}
    for n in (1, 2, 3):
        for kinds in itertools.product(["int", "float", "double"], repeat=n):
            ts = [ctyp.terminal(k) for k in kinds]
            r = mat(ts)
            if not any(r is t for t in ts):
                return True, "most_accurate_type(%r) returned an object that is not in the list" % (kinds,)
            if rank[r.type] < max(rank[k] for k in kinds):
                return True, "most_accurate_type(%r) returned %s, not the widest kind" % (list(kinds), r.type)
    for bad in ([], ["bool"], ["int", "string"]):
        try:
            mat([ctyp.terminal(k) for k in bad])
            return True, "most_accurate_type(%r) returned normally, expected AssertionError" % (bad,)
        except AssertionError:
            pass
    return False, "widest member returned for all kind lists up to length 3"


def _visitor():
    from func_adl_xAOD.atlas.xaod.query_ast_visitor import atlas_xaod_query_ast_visitor
    return atlas_xaod_query_ast_visitor()


@driver
def visit_constant_kinds(args):
    "literals of every kind keep their value and kind: int -> int, float -> double (also integral floats), bool -> bool, str -> string"
    import ast
    cases = [(1, "1", "int"), (0, "0", "int"), (-5, "-5", "int"), (2.0, "2.0", "double"), (2.5, "2.5", "double"), (1e16, "1e+16", "double"),
             (3000000000.0, "3000000000.0", "double"), (True, "true", "bool"), (False, "false", "bool"), ("ab", '"ab"', "string")]
    for value, text, kind in cases:
        v = _visitor()
        node = ast.Constant(value=value)
        try:
            v.visit_Constant(node)
        except Exception as e:  # noqa
            return True, "ast.Constant(%r) is refused: %s" % (value, e)
        if node.rep.as_cpp() != text or node.rep.cpp_type().type != kind:
            return True, "ast.Constant(%r) is rendered as `%s` of C++ kind %s, expected `%s` of kind %s" % (value, node.rep.as_cpp(), node.rep.cpp_type().type, text, kind)
    for value in (None, 1j, b"x"):
        v = _visitor()
        try:
            v.visit_Constant(ast.Constant(value=value))
            return True, "ast.Constant(%r) is accepted, expected ValueError" % (value,)
        except ValueError:
            pass
    # literals that compare equal but differ in kind, one after the other in ONE translation (same visitor object)
    want = {int: "int", float: "double", bool: "bool"}
    for seq in ([1.0, True, 1], [True, 1.0], [2, 2.0], [2.0, 2], [0, False, 0.0], [False, 0, 0.0]):
        v = _visitor()
        for value in seq:
            node = ast.Constant(value=value)
            v.visit_Constant(node)
            text = "true" if value is True else "false" if value is False else str(value)
            if node.rep.as_cpp() != text or node.rep.cpp_type().type != want[type(value)]:
                return True, "in one translation the literals %r: ast.Constant(%r) is rendered as `%s` of C++ kind %s, expected `%s` of kind %s" % (
                    seq, value, node.rep.as_cpp(), node.rep.cpp_type().type, text, want[type(value)])
    return False, "ok"


@driver
def visit_constant(args):
    """args: {"value": python literal as repr string, "expect": "int32"|"string_ok"|"finite"}"""
    import ast
    value = eval(args["value"], {"__builtins__": {}}, {"inf": float("inf"), "nan": float("nan")})
    v = _visitor()
    node = ast.Constant(value=value)
    try:
        v.visit_Constant(node)
    except ValueError as e:
        return False, "refused: %s" % e
    rep = node.rep
    text, kind = rep.as_cpp(), rep.cpp_type().type
    exp = args.get("expect")
    if exp == "int32":
        if kind == "int" and not (-2**31 <= value < 2**31):
            return True, "ast.Constant(%r) is rendered as %s and declared C++ `int`, which cannot hold it" % (value, text)
    if exp == "string_ok":
        body = text[1:-1]
        if any(c in body for c in '"\\\n\r'):
            return True, "ast.Constant(%r) is rendered as the C++ literal %s (quote / backslash / line break not representable this way)" % (value, text)
    if exp == "finite":
        if text in ("inf", "-inf", "nan"):
            return True, "ast.Constant(%s) is rendered as the C++ text `%s`, which is not a floating literal" % (args["value"], text)
    return False, "ok: %s : %s" % (text, kind)


def _const_node(text, kind, scope):
    "an ast node that already carries a C++ representation of the given kind (as if produced by an earlier visit)"
    import ast
    import func_adl_xAOD.common.cpp_representation as crep
    import func_adl_xAOD.common.cpp_types as ctyp
    n = ast.Name(id=text)
    crep.set_rep(n, crep.cpp_value(text, scope, ctyp.terminal(kind)))
    return n


@driver
def visit_binop(args):
    """args: {"op": "Div"|"Mod"|..., "kl": kind, "kr": kind}: translate `a <op> b` with operands of the given declared kinds and
    compare the declared result kind with what C++ computes for the emitted text"""
    import ast
    v = _visitor()
    scope = v._gc.current_scope()
    node = ast.BinOp(left=_const_node("a", args["kl"], scope), op=getattr(ast, args["op"])(), right=_const_node("b", args["kr"], scope))
    try:
        v.visit_BinOp(node)
    except Exception as e:  # noqa
        return bool(args.get("must_accept")), "refused with %s: %s" % (type(e).__name__, e)
    text, declared = node.rep.as_cpp(), node.rep.cpp_type().type
    rank = {"int": 0, "float": 1, "double": 2}
    if args["op"] == "Mod" and (args["kl"] != "int" or args["kr"] != "int") and "%" in text and "fmod" not in text:
        return True, "`a %% b` with kinds (%s, %s) is emitted as %s: operator %% on a floating operand is ill-formed C++" % (args["kl"], args["kr"], text)
    if args["op"] == "Div" and args["kl"] == "int" and args["kr"] == "int" and "static_cast" not in text and declared == "double":
        return True, "`a / b` with two int operands is emitted as %s and declared %s: C++ evaluates it as truncating integer division" % (text, declared)
    return False, "ok: %s : %s" % (text, declared)


@driver
def function_ast_in_arith(args):
    "a table math function used inside arithmetic: sin(a) + b must translate and be typed so that arithmetic accepts it"
    import ast
    from func_adl_xAOD.common.cpp_functions import FunctionAST, functions_to_replace
    v = _visitor()
    scope = v._gc.current_scope()
    info = functions_to_replace["sin"]
    call = ast.Call(func=FunctionAST(info.cpp_name, info.include_files, info.cpp_return_type), args=[_const_node("a", "double", scope)], keywords=[])
    node = ast.BinOp(left=call, op=ast.Add(), right=_const_node("b", "int", scope))
    try:
        v.visit_BinOp(node)
    except Exception as e:  # noqa
        return True, "sin(a) + b is refused: %s: %s" % (type(e).__name__, e)
    if not isinstance(node.rep.cpp_type().type, str):
        return True, "sin(a) + b has a result type whose name is not a string: %r" % (node.rep.cpp_type().type,)
    return False, "ok: %s : %s" % (node.rep.as_cpp(), node.rep.cpp_type().type)


@driver
def math_table(args):
    "every math function the README lists is in the table (also under builtins.<n> when python resolves n to a builtin) and maps to its namesake"
    import builtins
    import os
    import re
    import func_adl_xAOD
    from func_adl_xAOD.common.cpp_functions import functions_to_replace as tbl
    readme = open(os.path.join(os.path.dirname(os.path.dirname(func_adl_xAOD.__file__)), "README.md"), encoding="utf-8").read()
    m = re.search(r"^- Math functions are pulled from the C\+\+ \[`cmath` library\]\([^)]*\):(.*)$", readme, re.M)
    names = list(dict.fromkeys(re.findall(r"`([A-Za-z0-9_]+)`", m.group(1))))
    only = args.get("only")
    bad = []
    for n in names:
        for key in ([n] if not hasattr(builtins, n) else [n, "builtins." + n]):
            if only and key not in only:
                continue
            if key not in tbl:
                bad.append("%s is documented but `%s` is not in the function table" % (n, key))
                continue
            want = {"ln": ["std::log"], "abs": ["std::abs", "std::fabs"]}.get(n, ["std::" + n])
            if tbl[key].cpp_name not in want:
                bad.append("%s maps to %s, not to %s" % (key, tbl[key].cpp_name, " / ".join(want)))
            if "cmath" not in tbl[key].include_files:
                bad.append("%s does not pull in <cmath>" % key)
    if bad:
        return True, "; ".join(bad[:12])
    return False, "all %d documented functions map to their namesakes" % len(names)


def _dataset():
    import ast as _ast
    from func_adl import EventDataset

    class _ast_ds(EventDataset):
        async def execute_result_async(self, a, title):
            return a
    return _ast_ds()


def _executor(backend="atlas"):
    if backend == "atlas":
        from func_adl_xAOD.atlas.xaod.executor import atlas_xaod_executor
        return atlas_xaod_executor()
    if backend == "cms_aod":
        from func_adl_xAOD.cms.aod.executor import cms_aod_executor
        return cms_aod_executor()
    from func_adl_xAOD.cms.miniaod.executor import cms_miniaod_executor
    return cms_miniaod_executor()


def translate(query, backend="atlas", exe=None):
    "run the real translation of a func_adl query object -> (ExecutionInfo, {file name: text})"
    import tempfile
    from pathlib import Path
    a = query.value()
    exe = exe or _executor(backend)
    with tempfile.TemporaryDirectory() as d:
        info = exe.write_cpp_files(exe.apply_ast_transformations(a), Path(d))
        files = {f.name: f.read_text() for f in Path(d).iterdir() if f.is_file()}
    return info, files


@driver
def ttree_label_mismatch(args):
    "an explicit column-name list whose length differs from the number of values must be refused (both directions)"
    for nvals, names in [(3, ["a", "b"]), (2, ["a"]), (2, "a"), (2, ["a", "b", "c"])]:
        sel = "lambda j: (" + ", ".join(["j.pt()", "j.eta()", "j.phi()"][:nvals]) + ")"
        q = _dataset().SelectMany("lambda e: e.Jets('AntiKt4EMTopoJets')").Select(sel).AsROOTTTree("f.root", "t", names)
        try:
            translate(q)
        except Exception:
            continue
        return True, "a query with %d values and column names %r is translated instead of refused" % (nvals, names)
    return False, "all label-count mismatches are refused"


@driver
def branch_lines(args):
    "every backend books one Branch(\"<column>\", &<member>) line per column"
    import re
    for backend, fname in [("atlas", "query.cxx"), ("cms_aod", "Analyzer.cc"), ("cms_miniaod", "Analyzer.cc")]:
        coll = {"atlas": "e.Jets('AntiKt4EMTopoJets')", "cms_aod": "e.Tracks('globalMuons')", "cms_miniaod": "e.Muons('slimmedMuons')"}[backend]
        q = _dataset().SelectMany("lambda e: " + coll).Select("lambda j: (j.pt(), j.eta())").AsROOTTTree("f.root", "t", ["my_pt", "my_eta"])
        info, files = translate(q, backend)
        got = re.findall(r'myTree->Branch\("([^"]*)", &(\w+)\);', files[fname])
        if [g[0] for g in got] != ["my_pt", "my_eta"]:
            bad = [l.strip() for l in files[fname].splitlines() if "Branch" in l]
            return True, "%s: the booking code does not declare the columns my_pt, my_eta: %r" % (backend, bad[:3])
    return False, "all three backends book the two columns"


@driver
def reset_state(args):
    "executor.reset() must leave no namespace/enum registry entry and no found extended metadata behind"
    import func_adl_xAOD.common.cpp_types as ctyp
    exe = _executor("atlas")
    ctyp.define_enum("xAOD.Jet", "Color", ["Red", "Blue"])
    exe._job_option_blocks.append(object())
    exe.reset()
    left = []
    if len(ctyp.g_toplevel_ns) != 0:
        left.append("g_toplevel_ns still holds %r" % list(ctyp.g_toplevel_ns))
    if exe._job_option_blocks or exe._inject_blocks or exe._extended_md:
        left.append("block lists / extended metadata not cleared")
    return bool(left), "; ".join(left) if left else "reset() restores the fresh state"


@driver
def failed_query_leaks(args):
    "a query that declares a method type and then fails must not change how the next query is translated"
    import func_adl_xAOD.common.cpp_types as ctyp
    base = {k: dict(v) for k, v in ctyp.g_method_type_dict.items()}
    exe = _executor("atlas")
    fresh = {k: sorted(v) for k, v in ctyp.g_method_type_dict.items()}
    bad = (_dataset().MetaData({"metadata_type": "add_method_type_info", "type_string": "xAOD::Jet", "method_name": "pt", "return_type": "int"})
           .SelectMany("lambda e: e.Jets('AntiKt4EMTopoJets')").Select("lambda j: j.pt().no_such_thing()"))
    try:
        translate(bad, exe=exe)
        return False, "the probe query unexpectedly translated"
    except Exception:
        pass
    now = {k: sorted(v) for k, v in ctyp.g_method_type_dict.items()}
    if now != fresh:
        return True, "after a FAILED query the method-type registry still holds its declarations: %r (fresh state: %r)" % (now, fresh)
    good = _dataset().SelectMany("lambda e: e.Jets('AntiKt4EMTopoJets')").Select("lambda j: j.pt()")
    info, files = translate(good, exe=_executor("atlas"))
    if "int _col" in files["query.h"]:
        return True, "the next, unrelated query books an int column because of the failed query's declaration"
    return False, "a failed query leaves no trace"


@driver
def extended_md_shared(args):
    "extended metadata registered on one executor must not be visible on a newly created executor"
    e1 = _executor("atlas")
    e1.add_extended_md({"docker": object()})
    e2 = _executor("atlas")
    if len(e2._extended_md) != 0:
        return True, "a new executor starts with the extended metadata %r registered on another executor" % list(e2._extended_md)
    return False, "executors do not share extended metadata"


@driver
def substitution_swap(args):
    "formals (pt, eta) called with (j.eta(), j.pt()): both substituted at once, actual text never rescanned (F-8)"
    ds = _dataset().MetaData(dict(metadata_type="add_cpp_function", name="MyF", include_files=[], arguments=["pt", "eta"],
                                  code=["auto r_out = pt + eta;"], result_name="r_out", return_type="double"))
    q = ds.SelectMany("lambda e: e.Jets('J').Select(lambda j: MyF(j.eta(), j.pt()))").AsROOTTTree("f.root", "t", ["c"])
    info, files = translate(q, "atlas")
    import re
    lines = [ln.strip() for ln in files["query.cxx"].split("\n") if "auto r_out" in ln]
    ok = len(lines) == 1 and re.fullmatch(r"auto r_out = (i_obj\d+)->eta\(\) \+ \1->pt\(\);", lines[0]) is not None
    return (not ok), "MyF(pt, eta) with code `pt + eta` called as MyF(j.eta(), j.pt()) emitted %r" % (lines,)


@driver
def miniaod_two_tokens(args):
    "two collections in one miniAOD query read through two tokens, each declared and initialised once (F-7)"
    import re
    q = _dataset().Select("lambda e: (e.Muons('slimmedMuons').Count(), e.Electrons('slimmedElectrons').Count())").AsROOTTTree("f.root", "t", ["a", "b"])
    info, files = translate(q, "cms_miniaod")
    text = "\n".join(files.values())
    reads = re.findall(r"iEvent\.getByToken\((\w+), result\);", text)
    inits = re.findall(r"(\w+)\s*=\s*consumes<", text)
    bad = len(set(reads)) != 2 or sorted(inits) != sorted(set(inits)) or set(inits) != set(reads)
    return bad, "getByToken reads %r, consumes initialisations %r" % (reads, inits)


@driver
def element_pointer(args):
    "element_pointer of a CMS collection declaration decides the pointer depth of the elements (F-16)"
    from func_adl_xAOD.common.meta_data import process_metadata
    out = []
    for t in ("add_cms_aod_event_collection_info", "add_cms_miniaod_event_collection_info"):
        for ep in (True, False):
            r = process_metadata([dict(metadata_type=t, name="X", include_files=["a.h"], container_type="C", element_type="E", contains_collection=True, element_pointer=ep)])
            d = r[0].container_type.element_type.p_depth
            if d != (1 if ep else 0):
                out.append("%s element_pointer=%r -> element pointer depth %d" % (t, ep, d))
    return bool(out), "; ".join(out) or "element_pointer honoured"


def main():
    name = sys.argv[1]
    args = json.loads(sys.argv[2]) if len(sys.argv) > 2 else {}
    try:
        v, d = DRIVERS[name](args)
        print(json.dumps({"violates": bool(v), "detail": d}))
    except Exception as e:  # noqa
        import traceback
        print(json.dumps({"violates": None, "detail": "driver crashed: " + traceback.format_exc()[-600:]}))


# (drivers added later are registered below; the entry point is at the end of the file)


@driver
def aggregate_accumulator_scope(args):
    """visit_call_Aggregate_initial on the real translator: when the loops the aggregated sequence runs in were opened below the point where
    the aggregate was requested, the accumulator must be declared at or above that point (else it is re-initialised on every iteration of
    the enclosing loop and the aggregate only sees the last group of elements)."""
    from func_adl_xAOD.common.ast_to_cpp_translator import query_ast_visitor
    import func_adl_xAOD.common.statement as statement
    real = query_ast_visitor.visit_call_Aggregate_initial
    found = []

    def parents(root):
        out = {}

        def walk(b):
            for s in b._statements:
                out[id(s)] = b
                if isinstance(s, statement.block):
                    walk(s)
        walk(root)
        return out

    def wrapper(self, node, a):
        entry = tuple(self._gc._scope_stack)
        real(self, node, a)
        acc = node.rep
        par = parents(self._gc._block)
        # the block that declares the accumulator, the statement that updates it
        blocks = [self._gc._block] + [b for b in _all_blocks(self._gc._block)]
        decl = [b for b in blocks if any(v is acc for v in b._variables)]
        upd = [s for b in blocks for s in b._statements if isinstance(s, statement.set_var) and s._target is acc]
        if len(decl) != 1 or len(upd) != 1:
            found.append("accumulator %s is declared in %d blocks and updated by %d statements" % (acc.as_cpp(), len(decl), len(upd)))
            return
        chain = []  # ancestors of the update statement, innermost first
        b = par.get(id(upd[0]))
        while b is not None:
            chain.append(b)
            b = par.get(id(b))
        loops_below_entry = []
        for b in chain:
            if b is entry[-1]:
                break
            if isinstance(b, statement.loop):
                loops_below_entry.append(b)
        else:
            return  # the sequence does not run below the request point: nothing claimed
        if loops_below_entry and not any(decl[0] is e for e in entry):
            inside = [l for l in loops_below_entry if decl[0] is l or _is_ancestor(par, l, decl[0])]
            if inside:
                found.append("accumulator `%s` is declared inside the loop `for (auto &&%s : %s)` that was opened to run the aggregated sequence: "
                             "it is re-initialised on every iteration" % (acc.as_cpp(), inside[-1]._loop_variable.as_cpp(), inside[-1]._collection.as_cpp()))

    query_ast_visitor.visit_call_Aggregate_initial = wrapper
    try:
        queries = ["lambda e: e.Jets('A').Select(lambda j: j.pt()).Count()",
                   "lambda e: e.Jets('A').SelectMany(lambda j: e.Tracks('T')).Count()",
                   "lambda e: e.Jets('A').SelectMany(lambda j: e.Tracks('T')).Select(lambda t: t.pt()).Sum()",
                   "lambda e: e.Jets('A').Select(lambda j: e.Tracks('T').Where(lambda t: t.pt() > j.pt())).Count()",
                   "lambda e: e.Jets('A').Select(lambda j: e.Tracks('T').Count())",
                   "lambda e: e.Jets('A').Where(lambda j: e.Tracks('T').Where(lambda t: t.pt() > j.pt()).Count() > 2).Count()"]
        for qs in queries:
            found.clear()
            translate(_dataset().Select(qs))
            if found:
                return True, "%s: %s" % (qs, found[0])
    finally:
        query_ast_visitor.visit_call_Aggregate_initial = real
    return False, "the accumulator of every probe query is declared outside the loops of its sequence"


def _all_blocks(root):
    import func_adl_xAOD.common.statement as statement
    for s in root._statements:
        if isinstance(s, statement.block):
            yield s
            yield from _all_blocks(s)


def _is_ancestor(par, anc, b):
    while b is not None:
        b = par.get(id(b))
        if b is anc:
            return True
    return False


@driver
def range_bounds_initialised(args):
    """Range(lo, hi) on the real translator: `int end (hi)` is a declaration of Range's own block, and a block's declarations are emitted before
    its statements; so the code that computes a bound must not be a statement of that block (else the bound is read before it is computed)."""
    import func_adl_xAOD.common.statement as statement
    from func_adl_xAOD.common.ast_to_cpp_translator import query_ast_visitor
    real = query_ast_visitor.call_Range
    found = []

    def wrapper(self, node, a):
        r = real(self, node, a)
        blocks = [self._gc._block] + list(_all_blocks(self._gc._block))
        for b in blocks:
            for v in b._variables:
                init = getattr(v, "_initial_value", None)
                if init is None or not v.as_cpp().startswith(("begin", "end")):
                    continue
                # statements of b (at any depth) that assign the variable the initialiser reads
                for inner in [b] + list(_all_blocks(b)):
                    for s in inner._statements:
                        if isinstance(s, statement.set_var) and s._target.as_cpp() == init.as_cpp():
                            found.append("`%s %s (%s);` is declared at the top of Range's block, but `%s` is computed by a statement of that "
                                         "block (`%s = %s;`), i.e. after the declaration" % (v.cpp_type(), v.as_cpp(), init.as_cpp(), init.as_cpp(),
                                                                                             s._target.as_cpp(), s._value.as_cpp()))
        return r

    query_ast_visitor.call_Range = wrapper
    try:
        for qs in ["lambda e: Range(0, e.Jets('A').Count()).Select(lambda i: i * 2)",
                   "lambda e: Range(e.Jets('A').Count(), 10).Select(lambda i: i * 2)",
                   "lambda e: e.Jets('A').Select(lambda j: Range(0, e.Tracks('T').Count()).Select(lambda i: j.pt() * i))",
                   "lambda e: e.Jets('A').Select(lambda j: Range(0, 10).Select(lambda i: j.pt() * i))"]:
            found.clear()
            translate(_dataset().Select(qs))
            if found:
                return True, "%s: %s" % (qs, found[0])
    finally:
        query_ast_visitor.call_Range = real
    return False, "the bounds of every probe Range are computed before Range's block is entered"


@driver
def dropped_call_arguments(args):
    """nothing that was asked for is silently dropped: keyword arguments of a C++ method call, a math-table function, an injected C++
    function and a collection accessor must be refused (args: {"site": ...}; by default chosen from the obligation name)."""
    ob = args.get("obligation", "")
    site = args.get("site") or ("member" if "visit_Call_Member" in ob else "function" if "visit_function_ast" in ob else
                                "injected" if "build_CPPCodeValue" in ob else "collection" if "get_collection" in ob else "all")
    probes = {"member": ["lambda e: e.Jets('A').Select(lambda j: j.pt(scale=2))"],
              "function": ["lambda e: e.Jets('A').Select(lambda j: sin(j.pt(), x=3))"],
              "injected": ["lambda e: e.Jets('A').Select(lambda j: MyF(j.pt(), offset=1))"],
              "collection": ["lambda e: e.Jets('A', calibrate=False).Select(lambda j: j.pt())"]}
    md = {"metadata_type": "add_cpp_function", "name": "MyF", "include_files": [], "arguments": ["x"], "code": ["auto result = x;"],
          "result_name": "result", "return_type": "double"}
    for k, qs in probes.items():
        if site not in (k, "all"):
            continue
        for q in qs:
            try:
                ds = _dataset().MetaData(md) if k == "injected" else _dataset()
                info, files = translate(ds.Select(q))
            except Exception:
                continue
            body = [l.strip() for l in files["query.cxx"].splitlines() if "_col" in l and "=" in l or "push_back" in l]
            return True, "%s is translated (%s): the keyword argument is silently dropped" % (q, "; ".join(body[:2]))
    return False, "calls with keyword arguments are refused"


@driver
def first_of_sequences(args):
    """First() of a sequence whose elements are sequences themselves: what is done with that first element afterwards must be generated inside
    the loop that produces its items (else the item's loop variable is used outside its loop: the C++ does not compile)."""
    import re
    for qs in ["lambda e: e.Jets('A').Select(lambda j: e.Tracks('T').Where(lambda t: t.pt() > j.pt())).First().Select(lambda t: t.eta())",
               "lambda e: e.Jets('A').Select(lambda j: e.Tracks('T').Select(lambda t: t.pt())).First().Count()"]:
        try:
            info, files = translate(_dataset().Select(qs))
        except Exception:
            continue
        text = files["query.cxx"]
        # every use of a loop variable must be inside the braces of its for statement
        for m in re.finditer(r"for \(auto &&(\w+) : [^)]*\)\s*\{", text):
            var, depth, i = m.group(1), 1, m.end()
            while depth and i < len(text):
                depth += {"{": 1, "}": -1}.get(text[i], 0)
                i += 1
            rest = text[i:]
            use = re.search(r"\b%s\b" % var, rest)
            if use:
                line = rest[:use.end() + 40].splitlines()[-1 if "\n" not in rest[use.start():use.end() + 40] else -2].strip()
                return True, "%s: the loop variable `%s` is used after its loop has been closed (`%s`)" % (qs, var, [l.strip() for l in rest.splitlines() if var in l][0])
    return False, "every loop variable of the probe queries is used inside its loop only"


@driver
def redeclared_default_method(args):
    """a query that redeclares, through metadata, a method for which the back end has a built-in default (xAOD::TruthParticle::prodVtx ...)
    is translated with the DECLARED type: access operator, column type."""
    cases = [("prodVtx", "int", "lambda p: p.prodVtx()", r"int _\w+;", "->prodVtx()"),
             ("parent", "float", "lambda p: p.parent()", r"float _\w+;", "->parent()")]
    import re
    for meth, rt, sel, decl, call in cases:
        q = (_dataset().MetaData(dict(metadata_type="add_method_type_info", type_string="xAOD::TruthParticle", method_name=meth, return_type=rt))
             .SelectMany("lambda e: e.TruthParticles('T')").Select(sel))
        try:
            info, files = translate(q)
        except Exception as e:
            return True, "redeclaring xAOD::TruthParticle::%s as %s makes the translation fail: %r" % (meth, rt, e)
        if not re.search(decl, files["query.h"]):
            cols = [l.strip() for l in files["query.h"].splitlines() if re.match(r"\s*[\w:<>\*]+ _\w+;", l)]
            return True, "xAOD::TruthParticle::%s is declared to return %s by the query's metadata, but the column is `%s`" % (meth, rt, "; ".join(cols))
    return False, "redeclared default methods are translated with their declared types"


@driver
def conditional_structure(args):
    """`a if test else b` on the real translator: the else block must directly follow, in the same block, the if block on the test's value, and both
    arms must end by assigning the same result variable (otherwise the else arm pairs with some other `if`, e.g. the check that First() adds)."""
    import func_adl_xAOD.common.statement as statement
    from func_adl_xAOD.common.ast_to_cpp_translator import query_ast_visitor
    roots = []
    real_emit = query_ast_visitor.emit_query

    def spy(self, e):
        roots.append(self._gc._block)
        return real_emit(self, e)
    query_ast_visitor.emit_query = spy
    try:
        for qs in ["lambda e: 1.0 if e.Jets('A').First().pt() > 10 else e.Electrons('B').First().pt()",
                   "lambda e: e.Jets('A').First().pt() if e.Jets('A').Count() > 0 else 0.0",
                   "lambda e: e.Jets('A').Select(lambda j: j.pt() if j.eta() > 0 else j.phi())",
                   "lambda e: e.Jets('A').Select(lambda j: (1.0 if j.pt() > 10 else 2.0) if j.eta() > 0 else e.Tracks('T').First().pt())"]:
            roots.clear()
            try:
                translate(_dataset().Select(qs))
            except Exception:
                continue
            for root in roots:
                for b in [root] + list(_all_blocks(root)):
                    for k, st in enumerate(b._statements):
                        if not isinstance(st, statement.elsephrase):
                            continue
                        prev = b._statements[k - 1] if k > 0 else None

                        def targets(blk):
                            out = set()
                            for inner in [blk] + list(_all_blocks(blk)):
                                out |= {x._target.as_cpp() for x in inner._statements if isinstance(x, statement.set_var)}
                            return out
                        if not isinstance(prev, statement.iftest) or isinstance(prev, statement.elsephrase):
                            return True, "%s: an `else` block does not directly follow an `if` block" % qs
                        if not (targets(prev) & targets(st)):
                            return True, "%s: the `else` arm (assigning %s) is attached to `if (%s)`, which is not the test of its conditional (that block assigns %s)" % (
                                qs, sorted(targets(st)), prev._expr.as_cpp(), sorted(targets(prev)))
    finally:
        query_ast_visitor.emit_query = real_emit
    return False, "every else block pairs with the if block of its own conditional"


@driver
def tree_and_column_names(args):
    """AsROOTTTree(file, tree, columns): names that cannot be written as a C++ string literal are refused; a column of any other name gets a class
    member whose name is a C++ identifier (the branch keeps the name as given)."""
    import re
    ob = args.get("obligation", "")
    want = "literal" if "string_literals" in ob else "member" if "identifier" in ob else "all"
    if want in ("literal", "all"):
        for tree, cols in [('my"tree', ["a", "b"]), ("t", ['a"x', "b"]), ("t\\n", ["a", "b"])]:
            q = _dataset().SelectMany("lambda e: e.Jets('A')").Select("lambda j: (j.pt(), j.eta())").AsROOTTTree("f.root", tree, cols)
            try:
                info, files = translate(q)
            except Exception:
                continue
            bad = [l.strip() for l in files["query.cxx"].splitlines() if ("TTree (" in l or "Branch(" in l) and (tree in l or cols[0] in l)]
            return True, "tree %r with columns %r is translated: %s" % (tree, cols, bad[:1])
    if want in ("member", "all"):
        for cols in (["jet.pt", "a b"], ["pt-1", "x"], ["2nd", "x"], ["jet.pt", "jet_pt"], ["a-b", "a b"]):
            q = _dataset().SelectMany("lambda e: e.Jets('A')").Select("lambda j: (j.pt(), j.eta())").AsROOTTTree("f.root", "t", cols)
            try:
                info, files = translate(q)
            except Exception:
                continue
            decls = [l.strip() for l in files["query.h"].splitlines() if re.match(r"\s*(double|float|int|bool|std::vector<.*>)\s+_", l)]
            for dline in decls:
                name = dline.rstrip(";").split(None, 1)[1]
                if not re.fullmatch(r"[A-Za-z_][A-Za-z0-9_]*", name):
                    return True, "column names %r: the class member is declared as `%s`, which is not a C++ identifier" % (cols, dline)
            if not all(('Branch("%s"' % c) in files["query.cxx"] for c in cols):
                return True, "column names %r are not the names of the booked branches" % (cols,)
            bound = re.findall(r'Branch\("[^"]*", &(\w+)\)', files["query.cxx"])
            names = [dl.rstrip(";").split(None, 1)[1] for dl in decls]
            if len(set(bound)) != len(cols) or len(set(names)) != len(names):
                return True, "column names %r: the columns do not have their own storage each (members declared: %s; branches bound to: %s)" % (cols, names, bound)
    return False, "unrepresentable names are refused and members are identifiers"


@driver
def clear_after_fill(args):
    """every vector column (1-D or nested) is cleared right after the Fill of its row, and nothing but those clears follows the Fill in its block:
    otherwise the column carries over from one event to the next."""
    import func_adl_xAOD.common.statement as statement
    import func_adl_xAOD.common.cpp_types as ctyp
    from func_adl_xAOD.common.ast_to_cpp_translator import query_ast_visitor
    seen = []
    real_emit = query_ast_visitor.emit_query

    def spy(self, e):
        seen.append(self._gc)
        return real_emit(self, e)
    query_ast_visitor.emit_query = spy
    try:
        for qs in ["lambda e: e.Jets('A').Select(lambda j: j.pt())",
                   "lambda e: (e.Jets('A').Select(lambda j: j.pt()), e.Jets('A').Count())",
                   "lambda e: e.Jets('A').Select(lambda j: e.Tracks('T').Select(lambda t: t.pt()))",
                   "lambda e: (e.Jets('A').Select(lambda j: e.Tracks('T').Select(lambda t: t.pt())), e.Jets('A').Select(lambda j: j.eta()))",
                   "lambda e: e.Jets('A').Select(lambda j: e.Tracks('T').Select(lambda t: e.Jets('B').Select(lambda k: k.pt() + t.pt())))"]:
            seen.clear()
            try:
                translate(_dataset().Select(qs))
            except Exception:
                continue
            for gc in seen:
                vectors = [v for v in gc._class_vars if isinstance(v.cpp_type(), ctyp.collection)]
                blocks = [gc._block] + list(_all_blocks(gc._block))
                fills = [(b, k) for b in blocks for k, s in enumerate(b._statements) if isinstance(s, statement.ttree_fill)]
                if len(fills) != 1:
                    return True, "%s: %d Fill statements" % (qs, len(fills))
                b, k = fills[0]
                after = b._statements[k + 1:]
                cleared = [s._collection.as_cpp() for s in after if isinstance(s, statement.container_clear)]
                other = [type(s).__name__ for s in after if not isinstance(s, statement.container_clear)]
                missing = [v.as_cpp() for v in vectors if v.as_cpp() not in cleared]
                if missing:
                    return True, "%s: the vector column member(s) %s (%s) are not cleared after the Fill: their content carries over to the next event" % (
                        qs, ", ".join(missing), ", ".join(str(v.cpp_type()) for v in vectors if v.as_cpp() in missing))
                if other:
                    return True, "%s: %s follows the Fill in its block" % (qs, other)
    finally:
        query_ast_visitor.emit_query = real_emit
    return False, "every vector column of the probe queries is cleared right after the Fill"


@driver
def fill_once_per_row(args):
    """event-level rows (one row per event): the Fill and the clears that follow it are statements of the per-event block itself, whatever the columns
    contain (First(), counts, vectors) -- not of a block some column's computation opened (a First() guard, a loop)."""
    import func_adl_xAOD.common.statement as statement
    from func_adl_xAOD.common.ast_to_cpp_translator import query_ast_visitor
    seen = []
    real_emit = query_ast_visitor.emit_query

    def spy(self, e):
        seen.append(self._gc)
        return real_emit(self, e)
    query_ast_visitor.emit_query = spy
    try:
        for qs in ["lambda e: (e.Jets('A').First().pt(), e.Jets('A').Select(lambda j: j.pt()))",
                   "lambda e: (e.Jets('A').Select(lambda j: j.pt()), e.Jets('A').First().pt())",
                   "lambda e: (e.Jets('A').First().pt(), e.Jets('A').Count())",
                   "lambda e: (e.Jets('A').Count(), e.Jets('A').Select(lambda j: j.eta()), e.Tracks('T').First().pt())",
                   "lambda e: e.Jets('A').Select(lambda j: j.pt())"]:
            seen.clear()
            try:
                translate(_dataset().Select(qs))
            except Exception:
                continue
            for gc in seen:
                root = gc._block
                if not any(isinstance(s, statement.ttree_fill) for s in root._statements):
                    where = [type(b).__name__ + ("(%s)" % b._expr.as_cpp() if isinstance(b, statement.iftest) and not isinstance(b, statement.elsephrase) else "")
                             for b in _all_blocks(root) if any(isinstance(s, statement.ttree_fill) for s in b._statements)]
                    return True, "%s: the Fill of the event's row is not a statement of the per-event block but of %s" % (qs, where or "no block at all")
    finally:
        query_ast_visitor.emit_query = real_emit
    return False, "the Fill of every probe query is a statement of the per-event block"


@driver
def nested_math_functions(args):
    """documented math functions are usable inside larger arithmetic and inside each other: every call site, at any depth, is mapped to its std:: namesake."""
    for expr, wants in [("sqrt(pow(j.pt(), 2) + pow(j.eta(), 2))", ["std::sqrt(", "std::pow("]), ("abs(sin(j.pt()))", ["std::abs(", "std::sin("]),
                        ("exp(0 - fabs(j.eta()))", ["std::exp(", "std::fabs("]), ("sin(j.pt()) + cos(j.eta()) * 2", ["std::sin(", "std::cos("]),
                        ("j.pt() * tanh(log(j.pt()))", ["std::tanh(", "std::log("])]:
        try:
            q = _dataset().SelectMany("lambda e: e.Jets('A')").Select("lambda j: " + expr)
        except Exception:
            continue  # func_adl itself could not build the query: nothing of this repository is involved
        try:
            info, files = translate(q)
        except Exception as e:
            return True, "`%s` is refused: %s: %s" % (expr, type(e).__name__, str(e)[:120])
        text = files["query.cxx"]
        miss = [w for w in wants if w not in text]
        if miss or "cmath" not in text:
            return True, "`%s`: the generated code lacks %s" % (expr, ", ".join(miss) or "the <cmath> header")
    return False, "nested math functions are mapped at every depth"


if __name__ == "__main__":
    main()
