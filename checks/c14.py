"""C14 static obligations: every inject_code slot is iterated by exactly one `for` of the documented file, printing the loop
variable once, unfiltered, inside the documented structural region.  Prints one JSON line (see pyvc/run.py run_extras)."""
import json, os, sys
sys.path.insert(0, os.path.dirname(os.path.abspath(__file__)))
from templates import slot_info, region_ok

R = "atlas/r21/"
SLOTS = [
    # slot variable, file, region: (after, before) regexes
    ("body_include_files", R + "query.cxx", r"#include <analysis/query.h>", r"query\s*::\s*query\s*\("),
    ("header_include_files", R + "query.h", r"#include <AnaAlgorithm/AnaAlgorithm.h>", r"class\s+query"),
    ("private_members", R + "query.h", r"private:", r"};"),
    ("instance_initialization", R + "query.cxx", r":\s*EL::AnaAlgorithm\s*\(name,\s*pSvcLocator\)", r"\n\{"),
    ("ctor_lines", R + "query.cxx", r"EL::AnaAlgorithm\s*\(name,\s*pSvcLocator\)[^{]*\{", r"StatusCode\s+query\s*::\s*initialize"),
    ("initialize_lines", R + "query.cxx", r"StatusCode\s+query\s*::\s*initialize\s*\(\)\s*\{", r"StatusCode\s+query\s*::\s*execute"),
    ("link_libraries", R + "package_CMakeLists.txt", r"LINK_LIBRARIES\s+AnaAlgorithmLib", r"\)"),
    ("body_include_files", "cms/r5/Analyzer.cc", r"#include", r"class\s+Analyzer"),
    ("body_include_files", "cms/r7/Analyzer.cc", r"#include", r"class\s+Analyzer"),
]
results = []
for var, rel, after, before in SLOTS:
    name = "C14/template:%s:%s" % (rel, var)
    try:
        loops = slot_info(rel, var)
        if len(loops) != 1:
            results.append(dict(name=name + "/exactly_one_loop", kind="static", status="violation",
                                detail="%s is iterated by %d for-loops in %s (documented: exactly once)" % (var, len(loops), rel)))
            continue
        results.append(dict(name=name + "/exactly_one_loop", kind="static", status="ok"))
        l = loops[0]
        results.append(dict(name=name + "/prints_each_line_once_unfiltered", kind="static",
                            status="ok" if l["plain_once"] else "violation",
                            detail="" if l["plain_once"] else "the loop body at line %d of %s does not print the loop variable exactly once, unfiltered" % (l["lineno"], rel)))
        ok, info = region_ok(rel, var, after, before)
        results.append(dict(name=name + "/documented_place", kind="static", status="ok" if ok else "violation", detail="" if ok else info))
    except Exception as e:  # noqa
        results.append(dict(name=name, kind="static", status="undecided", detail="static check crashed: %r" % (e,)))


# ---- bounded stand-in: real templates through the real jinja2 --------------------------------------------------
import render as R2
tier = os.environ.get("VERIF_TIER", "quick")
seed = int(os.environ.get("VERIF_SEED", "0") or 0)
n = 40 if tier == "quick" else 600
evals = 0
bad = None
FILES = {"func_adl_xAOD/template/atlas/r21": [("query.cxx", ["body_include_files", "instance_initialization", "ctor_lines", "initialize_lines"]),
                                              ("query.h", ["header_include_files", "private_members"]),
                                              ("package_CMakeLists.txt", ["link_libraries"])],
         "func_adl_xAOD/template/cms/r5": [("Analyzer.cc", ["body_include_files"])],
         "func_adl_xAOD/template/cms/r7": [("Analyzer.cc", ["body_include_files"])]}
try:
    for info in R2.cases(n, seed):
        # make lines unique per slot so that "exactly once" is observable
        info = {k: ["%s<%s%d>" % (v, k, i) for i, v in enumerate(vs)] for k, vs in info.items()}
        for tdir, files in FILES.items():
            for fname, slots in files:
                text = R2.render(tdir, fname, info)
                evals += 1
                for sl in slots:
                    msg = R2.check_slot(text, info[sl], "%s/%s slot %s" % (tdir, fname, sl))
                    if msg and not bad:
                        bad = (msg, {sl: info[sl]})
    results.append(dict(name="C14/bounded:render_special_characters", kind="bounded", status="violation" if bad else "ok",
                        bound="lines from a pool of %d template-special strings (all singletons + %d random mixtures of 0..3 lines per slot), 5 template files" % (len(R2.POOL), n),
                        evaluations=evals, distinct=evals, exhaustive=False, detail=bad[0] if bad else "", input=bad[1] if bad else None))
except Exception as e:  # noqa
    results.append(dict(name="C14/bounded:render_special_characters", kind="bounded", status="undecided", detail="crashed: %r" % (e,)))
print(json.dumps(dict(results=results)))
