"""Symbolic executor / VC generator over the real function bodies in /repo."""
from __future__ import annotations
import ast
import z3
from .core import *
from .ops import *
from . import ops
from . import ops as ops_mod
from .front import Repo, ModuleInfo, ClassInfo
from .contract import Registry, Contract, SpecModule


class State:
    def __init__(self):
        self.env = {}
        self.heap = {}
        self.glob = {}
        self.ghost = {}
        self.pc = []
        self.top = None
        self.wf_seen = set()

    def copy(self):
        s = State()
        s.env = dict(self.env)
        s.heap = dict(self.heap)
        s.glob = dict(self.glob)
        s.ghost = dict(self.ghost)
        s.pc = list(self.pc)
        s.top = self.top
        s.wf_seen = set(self.wf_seen)
        return s


class Raised:
    def __init__(self, exc, st, info=None):
        self.exc = exc  # qualified class name
        self.st = st
        self.info = info  # Val (exception object) or None


def cx_spec_mode(ex):
    return False


class Cx:
    "evaluation context"

    def __init__(self, mod, cls=None, fn=None, spec=False, pre=None, contract=None, closure=None, depth=0, acc=None,
                 self_val=None, fn_node=None):
        self.mod = mod
        self.cls = cls
        self.fn = fn
        self.spec = spec
        self.pre = pre
        self.contract = contract
        self.closure = closure or []
        self.depth = depth
        self.acc = acc if acc is not None else []
        self.self_val = self_val
        self.fn_node = fn_node
        self.module_level = False
        self.ghost_contract = None  # inside a local closure of a function under contract: that function's contract (its ghost anchors apply)

    def child(self, **kw):
        c = Cx(self.mod, self.cls, self.fn, self.spec, self.pre, self.contract, self.closure, self.depth, self.acc,
               self.self_val, self.fn_node)
        c.module_level = self.module_level
        c.ghost_contract = self.ghost_contract
        for k, v in kw.items():
            setattr(c, k, v)
        return c


class Obligation:
    def __init__(self, name, kind, label, assumptions, goal, fn, line=None, note=""):
        self.name = name
        self.kind = kind
        self.label = label
        self.assumptions = assumptions
        self.goal = goal
        self.fn = fn
        self.line = line
        self.note = note
        self.result = None
        self.model = None
        self.time = 0.0
        self.backend = None


class VExc(Val):
    def __init__(self, qn, args=None):
        self.qn = qn
        self.args = args or []


class VSuper(Val):
    def __init__(self, self_val, after_cls):
        self.self_val = self_val
        self.after_cls = after_cls


class VIter(Val):
    "lazy iterable with concrete structure (zip/enumerate/generator results)"

    def __init__(self, items):
        self.items = items


MAX_INLINE_DEPTH = 12


class ExecBase:
    def __init__(self, repo: Repo, reg: Registry, prop="", feas_timeout_ms=60):
        self.repo = repo
        self.reg = reg
        self.prop = prop
        self.obligations = []
        self.axioms = []  # global background facts (uninterpreted function axioms, heap well-formedness)
        self.init_heap = {}
        self.class_ids = {}
        self.covers = []
        self.feas_timeout = feas_timeout_ms
        self.cur_fn = ""
        self.const_cache = {}
        self.H_cls = z3.Const("H_cls", z3.ArraySort(z3.IntSort(), z3.IntSort()))
        self.top0 = z3.Int("top0")
        self.axioms.append(self.top0 >= 1)
        self.used_axioms = set()
        self.inlined = set()
        self.assumed_contracts = set()
        self.unint_used = set()
        self.paths = 0
        self.warnings = []
        self._solver = None
        ops_mod.CLASS_ID_HOOK[0] = self.class_id
        self.inv_tags = {}
        self.arr_bound = {}
        self.force_inline = set()
        self._qf_cache = {}
        self.paranoid = bool(__import__('os').environ.get('PYVC_PARANOID'))
        self._wf_done = set()

    # ------------------------------------------------------------ classes
    def class_id(self, qn):
        qn = self.repo.canonical(qn)
        if qn not in self.class_ids:
            self.class_ids[qn] = len(self.class_ids) + 1
        return self.class_ids[qn]

    def vtype(self, qn):
        qn = self.repo.canonical(qn)
        return VType(z3.IntVal(self.class_id(qn)), qn)

    def cls_of(self, r: VRef):
        return z3.Select(self.H_cls, r.t)

    def isinstance_term(self, r: VRef, cqn):
        subs = self.repo.subclasses(cqn)
        c = self.cls_of(r)
        return z3.And(r.t != 0, z3.Or(*[c == self.class_id(s) for s in subs]))

    # ------------------------------------------------------------ heap
    def field_sort(self, name, cls=None):
        if cls is not None:
            for c in self.repo.mro(cls):
                if (c, name) in self.reg.class_fields:
                    return self.reg.class_fields[(c, name)]
        if name in self.reg.fields:
            return self.reg.fields[name]
        return None

    def heap_key(self, name, cls=None):
        if cls is not None:
            for c in self.repo.mro(cls):
                if (c, name) in self.reg.class_fields:
                    return "%s@%s" % (name, c.split(".")[-1])
        return name

    def heap_arr(self, st: State, key, sort: Sort):
        if key in st.heap:
            return st.heap[key]
        if key not in self.init_heap:
            a = z3.Const("H_" + key, z3.ArraySort(z3.IntSort(), sort.z3()))
            self.init_heap[key] = a
            self.arr_bound[a.get_id()] = self.top0
        return self.init_heap[key]

    def _heap_wf(self, arr, sort, top, into=None):
        return  # well-formedness of heap cells is asserted per read (read_field), not by quantified axioms
        into = self.axioms if into is None else into
        o = z3.FreshConst(z3.IntSort(), "o")
        live = z3.And(o > 0, o < top)  # only allocated objects are constrained; cells of unallocated ids are arbitrary
        if isinstance(sort, TRefS):
            into.append(z3.ForAll([o], z3.Implies(live, z3.And(z3.Select(arr, o) < top, z3.Select(arr, o) >= 0))))
        elif isinstance(sort, TList) and isinstance(sort.elem, TRefS):
            i = z3.FreshConst(z3.IntSort(), "i")
            l = z3.Select(arr, o)
            into.append(z3.ForAll([o, i], z3.Implies(live, z3.And(z3.Select(sort.arr(l), i) < top, z3.Select(sort.arr(l), i) >= 0))))
            into.append(z3.ForAll([o], sort.len(l) >= 0))
            into.append(z3.ForAll([o, i], z3.Or(z3.And(i >= 0, i < sort.len(l)), z3.Select(sort.arr(l), i) == 0)))
        elif isinstance(sort, TList):
            i = z3.FreshConst(z3.IntSort(), "i")
            l = z3.Select(arr, o)
            into.append(z3.ForAll([o], sort.len(l) >= 0))
            into.append(z3.ForAll([o, i], z3.Or(z3.And(i >= 0, i < sort.len(l)), z3.Select(sort.arr(l), i) == default_term(sort.elem))))

    def resolve_field_class(self, st, obj: VRef, name):
        """`name` is declared with a different sort for some classes (e.g. Constant.value, Lambda.args): the heap array is selected
        by the static class of the object, so the static class must decide whether the object is of such a class.  When it does
        not, the path condition must (narrow), otherwise the access is ambiguous and the function is outside the subset."""
        variants = self.reg.variant_classes(name) if hasattr(self.reg, "variant_classes") else []
        if not variants:
            return obj
        if obj.cls is not None and any(self.repo.is_subclass(obj.cls, c) for c in variants):
            return obj
        for c in variants:
            if obj.cls is not None and not self.repo.is_subclass(c, obj.cls):
                continue  # disjoint from the static class (single inheritance world)
            inst = self.isinstance_term(obj, c)
            if not self.feasible(st, z3.Not(inst)):
                return VRef(obj.t, c, exact=False)
            if self.feasible(st, inst):
                raise Unsupported("ambiguous access to field %s: the object may or may not be a %s (static class %s)" % (name, c, obj.cls))
        return obj

    def read_field(self, st, obj: VRef, name):
        obj = self.resolve_field_class(st, obj, name)
        s = self.field_sort(name, obj.cls)
        if s is None:
            return None
        a = self.heap_arr(st, self.heap_key(name, obj.cls), s)
        v = mk_val(z3.Select(a, obj.t), s)
        if isinstance(v, VFuncRef):
            v.field = name
        # representation invariants of the cell that was read (true of every cell of a live object)
        # representation invariants are stated for the cell of the BASE array (below all stores of this function), with the
        # allocation bound that held when that array version came into being: references in it cannot point to objects
        # allocated later
        base = a
        while z3.is_store(base):
            base = base.arg(0)
        bound = self.arr_bound.get(base.get_id(), st.top)
        key = (base.get_id(), obj.t.get_id())
        if key not in st.wf_seen:
            st.wf_seen.add(key)
            live = z3.And(obj.t > 0, obj.t < bound)
            w = State()
            w.top = bound
            self.assume_wf(w, mk_val(z3.Select(base, obj.t), s), nullable=True)
            if w.pc:
                f = z3.Implies(live, z3.And(*w.pc))
                st.pc.append(f)
        if base is not a:
            # the current version of the cell (after the stores of this function): references in it are below the CURRENT allocation top
            key2 = (a.get_id(), obj.t.get_id())
            if key2 not in st.wf_seen:
                st.wf_seen.add(key2)
                w = State()
                w.top = st.top
                self.assume_wf(w, v, nullable=True)
                if w.pc:
                    st.pc.append(z3.Implies(z3.And(obj.t > 0, obj.t < st.top), z3.And(*w.pc)))
        return v

    def narrow(self, st, v, want: Sort):
        "a union value used where a specific type is expected: unwrap when the path condition fixes the tag"
        if isinstance(v, VRec) and isinstance(v.sort, TUnionRec) and isinstance(want, TRec) and not isinstance(want, TUnionRec) \
                and want.cls in v.sort.members:
            if not self.feasible(st, v.sort.get(v.t, "tag") != self.class_id(want.cls)):
                return VRec(v.sort.get(v.t, v.sort.member_field(want.cls)), want)
            return v
        if isinstance(v, VOpt) and not isinstance(want, TOpt) and v.sort.inner == want:
            if not self.feasible(st, v.sort.is_none(v.t)):
                return mk_val(v.sort.the(v.t), v.sort.inner)
            return v
        if isinstance(v, VRec) and v.sort.nm == "PyVal":
            k = v.sort.get(v.t, "kind")
            if isinstance(want, TStrS) and not self.feasible(st, k != 1):
                return VStr(v.sort.get(v.t, "s"))
            if isinstance(want, TIntS) and not self.feasible(st, z3.And(k != 2, k != 3)):
                return VInt(z3.If(k == 2, v.sort.get(v.t, "i"), z3.If(v.sort.get(v.t, "b"), 1, 0)))
            if isinstance(want, TBoolS) and not self.feasible(st, k != 3):
                return VBool(v.sort.get(v.t, "b"))
            return v
        if not isinstance(v, VUnion) or isinstance(want, TUnionS):
            return v
        tg = PyU.tag(v.t)
        if isinstance(want, TStrS) and not self.feasible(st, tg != 1):
            return VStr(PyU.s(v.t))
        if isinstance(want, TIntS) and not self.feasible(st, z3.And(tg != 2, tg != 3)):
            return VInt(z3.If(tg == 2, PyU.i(v.t), z3.If(PyU.b(v.t), 1, 0)))
        if isinstance(want, TBoolS) and not self.feasible(st, tg != 3):
            return VBool(PyU.b(v.t))
        if isinstance(want, TRefS) and not self.feasible(st, z3.And(tg != 4, tg != 0)):
            return VRef(z3.If(tg == 4, PyU.r(v.t), 0), want.cls)
        if isinstance(want, TList) and isinstance(want.elem, TStrS) and not self.feasible(st, tg != 5):
            return VList(PyU.l(v.t), TList(Str))
        return v

    def narrow_deep(self, st, v, want: Sort):
        "narrow a value (or the items of a concrete-structure list) towards the wanted sort"
        if isinstance(v, VTuple) and isinstance(want, TList):
            return VTuple([self.narrow(st, i, want.elem) for i in v.items], v.is_list)
        return self.narrow(st, v, want)

    def write_field(self, st, obj: VRef, name, v: Val):
        obj = self.resolve_field_class(st, obj, name)
        s = self.field_sort(name, obj.cls)
        if s is None:
            raise Unsupported("store to undeclared field %s (class %s)" % (name, obj.cls))
        k = self.heap_key(name, obj.cls)
        a = self.heap_arr(st, k, s)
        if isinstance(v, VOpt) and not isinstance(s, TOpt) and not isinstance(s, TRefS):
            if self.feasible(st, v.sort.is_none(v.t)):
                raise Unsupported("possibly-None value stored into non-optional field %s" % name)
            v = mk_val(v.sort.the(v.t), v.sort.inner)
        v = self.narrow(st, v, s)
        tsort = s.inner if isinstance(s, TOpt) else s
        if isinstance(v, VTuple) and isinstance(tsort, TTup) and len(v.items) == len(tsort.items):
            v = VTuple([self.narrow(st, i, so) for i, so in zip(v.items, tsort.items)], v.is_list)
        # a reference stored into a field declared RefOf(C) must be null or an instance of C: every READ of the field assumes it (read_field),
        # so an unchecked store of another class would make all later paths contradictory (vacuous proofs) -- found by a mutant that pushed
        # a sequence object where a value was declared
        if isinstance(v, VRef) and isinstance(tsort, TRefS) and getattr(tsort, "cls", None):
            want = tsort.cls
            exc0 = getattr(self, "typing_exceptions", {}) or {}
            if not (v.cls is not None and self.repo.is_subclass(v.cls, want)) and name not in exc0:
                inst = z3.Or(v.t == 0, self.isinstance_term(v, want))
                if not self.feasible(st, inst):
                    # the path condition excludes every class the field may hold: a definitely ill-typed store
                    self.oblige(st, z3.BoolVal(False), "implicit", "well_typed_store[%s]" % name)
                else:
                    # a downcast, as in the code's own `cast(crep.cpp_value, ...)`: assumed, and recorded as an unchecked assumption
                    st.pc.append(inst)
                    w = "downcast assumed in %s: the object stored into field %s is a %s (the code relies on typing.cast; inputs for which it is not are outside the proof)" % (
                        self.cur_fn, name, want.split(".")[-1])
                    if w not in self.warnings:
                        self.warnings.append(w)
        try:
            t = term_of(v, s)
        except Unsupported:
            # a value of another python type is stored into this attribute (legal python, but every reader of the attribute
            # in this code base expects the declared type): reported as a failed obligation, execution continues with an
            # arbitrary value
            exc = getattr(self, "typing_exceptions", {}) or {}
            if name in exc:
                self.warnings.append("typing exception in %s: a value of another Python type is stored into field %s (%s); readers of that cell "
                                     "are assumed not to rely on the declared type" % (self.cur_fn, name, exc[name]))
            else:
                self.oblige(st, z3.BoolVal(False), "implicit", "well_typed_store[%s]" % name)
            t = z3.FreshConst(s.z3(), "illtyped")
        st.heap[k] = z3.Store(a, obj.t, t)

    def alloc(self, st, cqn):
        r = VRef(st.top, cqn, exact=True)
        st.pc.append(z3.Select(self.H_cls, st.top) == self.class_id(cqn))
        st.top = st.top + 1
        return r

    def assume_ref(self, st, v: VRef, nullable=False):
        "well-formedness of an incoming reference"
        c = z3.And(v.t >= 0, v.t < st.top)
        st.pc.append(c)
        if v.cls is not None:
            inst = self.isinstance_term(v, v.cls)
            st.pc.append(z3.Or(v.t == 0, inst) if nullable else inst)

    def assume_wf(self, st, v: Val, nullable=False):
        "assume representation invariants of a fresh symbolic value of any sort"
        if isinstance(v, VRef):
            self.assume_ref(st, v, nullable)
        elif isinstance(v, VList):
            st.pc.append(v.sort.len(v.t) >= 0)
            st.pc.append(canonical_list(v.t, v.sort))
            if isinstance(v.sort.elem, TRefS):
                i = z3.FreshConst(z3.IntSort(), "wi")
                e = z3.Select(v.sort.arr(v.t), i)
                body = z3.And(e >= 0, e < st.top)
                if v.sort.elem.cls is not None:
                    body = z3.And(body, z3.Implies(z3.And(i >= 0, i < v.sort.len(v.t)),
                                                   self.isinstance_term(VRef(e, v.sort.elem.cls), v.sort.elem.cls)))
                st.pc.append(z3.ForAll([i], body))
            elif isinstance(v.sort.elem, (TList, TRec, TDict, TTup)):
                i = z3.FreshConst(z3.IntSort(), "wi")
                sub = State()
                sub.top = st.top
                self.assume_wf(sub, mk_val(z3.Select(v.sort.arr(v.t), i), v.sort.elem))
                if sub.pc:
                    st.pc.append(z3.ForAll([i], z3.And(*sub.pc)))
        elif isinstance(v, VDict):
            st.pc.append(v.sort.wf(v.t))
            if isinstance(v.sort.v, (TList, TRec, TDict)):
                k = z3.FreshConst(v.sort.k.z3(), "wk")
                sub = State()
                sub.top = st.top
                self.assume_wf(sub, mk_val(z3.Select(v.sort.val(v.t), k), v.sort.v))
                if sub.pc:
                    st.pc.append(z3.ForAll([k], z3.And(*sub.pc)))
        elif isinstance(v, VSet):
            st.pc.append(v.sort.card(v.t) >= 0)
        elif isinstance(v, VRec) and isinstance(v.sort, TKDict):
            ok = v.sort.get(v.t, "other_key")
            for k in v.sort.keys:
                st.pc.append(ok != z3.StringVal(k))
            for k, so in v.sort.keys.items():
                self.assume_wf(st, mk_val(v.sort.get(v.t, "v_" + k), so), nullable=True)
        elif isinstance(v, VRec):
            for f, s in v.sort.fields:
                self.assume_wf(st, mk_val(v.sort.get(v.t, f), s), nullable=True)
        elif isinstance(v, VOpt):
            sub = State()
            sub.top = st.top
            self.assume_wf(sub, mk_val(v.sort.the(v.t), v.sort.inner))
            if sub.pc:
                st.pc.append(z3.Implies(z3.Not(v.sort.is_none(v.t)), z3.And(*sub.pc)))
        elif isinstance(v, VTuple):
            for it in v.items:
                self.assume_wf(st, it, nullable)

    # ------------------------------------------------------------ solver helpers
    def _qf(self, t):
        k = t.get_id()
        r = self._qf_cache.get(k)
        if r is None:
            from .smt import has_quantifier
            r = not has_quantifier(t)
            self._qf_cache[k] = r
        return r

    def feasible(self, st, extra=None):
        """over-approximate feasibility: only the quantifier-free part of the path condition is given to the solver, so a
        feasible path is never pruned (an infeasible one may survive: its obligations are then trivially valid)"""
        s = z3.Solver()
        s.set("timeout", self.feas_timeout)
        for a in ops_mod.DEFAULT_AXIOMS:
            if self._qf(a):
                s.add(a)
        for a in self.axioms:
            if self._qf(a):
                s.add(a)
        for p in st.pc:
            if self._qf(p):
                s.add(p)
        if extra is not None:
            s.add(extra)
        r = s.check()
        return r != z3.unsat

    def fork(self, st, cond):
        "-> (state where cond, state where not cond); either may be None when infeasible"
        c = z3.simplify(cond)
        if z3.is_true(c):
            return st, None
        if z3.is_false(c):
            return None, st
        t = f = None
        if self.feasible(st, c):
            t = st.copy()
            t.pc.append(c)
        if self.feasible(st, z3.Not(c)):
            f = st.copy()
            f.pc.append(z3.Not(c))
        return t, f

    def oblige(self, st, goal, kind, label, node=None, note=""):
        name = "%s/%s/%s:%s" % (self.prop, self.cur_fn, kind, label)
        self.obligations.append(Obligation(name, kind, label, list(st.pc), goal, self.cur_fn,
                                           getattr(node, "lineno", None), note))

    def raise_(self, cx: Cx, st, exc_qn, info=None):
        cx.acc.append(Raised(exc_qn, st, info))
