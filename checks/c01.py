"""C01 bounded stand-in (never counted as proved): initialiser discipline on the REAL translator.
A block's declarations are emitted before its statements (block.emit, verified in C02), so the initialiser of a block-local variable is
evaluated at block entry: it must not read a variable that a statement of the same block (at any depth) assigns.  The probe queries are
translated by the real executor and the generated statement tree is inspected.  Genuine defects that are recorded rather than repaired are
listed in /verif/known_findings.json by probe query; any other failing probe is a violation."""
import json, logging, os, sys, tempfile
from pathlib import Path
logging.disable(logging.CRITICAL)
ROOT = os.path.dirname(os.path.dirname(os.path.abspath(__file__)))
results = []
PROBES = [
    "lambda e: e.Jets('A').Select(lambda j: j.pt()).Aggregate(e.Tracks('T').Count(), lambda acc, v: acc + v)",
    "lambda e: e.Jets('A').Select(lambda j: j.pt()).Aggregate(0.0, lambda acc, v: acc + v)",
    "lambda e: e.Jets('A').Select(lambda j: j.pt()).Sum()",
    "lambda e: e.Jets('A').Select(lambda j: e.Tracks('T').Select(lambda t: t.pt()).Aggregate(j.pt(), lambda acc, v: acc + v))",
    "lambda e: Range(0, e.Jets('A').Count()).Select(lambda i: i * 2)",
    "lambda e: e.Jets('A').Select(lambda j: Range(0, e.Tracks('T').Count()).Select(lambda i: j.pt() * i))",
    "lambda e: e.Jets('A').Select(lambda j: j.pt()).First() if e.Jets('A').Count() > 0 else 0.0",
    "lambda e: e.Jets('A').Where(lambda j: j.pt() > 10 and j.eta() < 2 or j.phi() > 0).Count()",
    "lambda e: e.Jets('A').Select(lambda j: e.Tracks('T').Where(lambda t: t.pt() > j.pt()).Count()).Max()",
    "lambda e: (e.Jets('A').Count(), e.Jets('A').Select(lambda j: j.pt() if j.eta() > 0 else 0.0))",
]
try:
    import func_adl_xAOD.common.statement as statement
    from func_adl import EventDataset
    from func_adl_xAOD.common.ast_to_cpp_translator import query_ast_visitor

    class _DS(EventDataset):
        async def execute_result_async(self, a, title):
            return a

    def blocks_of(root):
        yield root
        for s in root._statements:
            if isinstance(s, statement.block):
                yield from blocks_of(s)

    def assigned_names(b):
        for inner in blocks_of(b):
            for s in inner._statements:
                if isinstance(s, statement.set_var):
                    yield s._target.as_cpp(), "%s = %s;" % (s._target.as_cpp(), s._value.as_cpp())

    captured = []
    real_emit = query_ast_visitor.emit_query

    def spy(self, e):
        captured.append(self._gc._block)
        return real_emit(self, e)
    query_ast_visitor.emit_query = spy
    failing = {}
    for backend in ("atlas",):
        from func_adl_xAOD.atlas.xaod.executor import atlas_xaod_executor
        for q in PROBES:
            captured.clear()
            exe = atlas_xaod_executor()
            try:
                with tempfile.TemporaryDirectory() as d:
                    exe.write_cpp_files(exe.apply_ast_transformations(_DS().Select(q).value()), Path(d))
            except Exception as e:  # a refused probe decides nothing about initialisers
                continue
            for root in captured:
                for b in blocks_of(root):
                    later = dict(assigned_names(b))
                    for v in b._variables:
                        init = getattr(v, "_initial_value", None)
                        if init is not None and init.as_cpp() in later and init.as_cpp() != v.as_cpp():
                            failing.setdefault(q, "`%s %s (%s);` is initialised at block entry from `%s`, which a statement of the same block assigns later (`%s`)" % (
                                v.cpp_type(), v.as_cpp(), init.as_cpp(), init.as_cpp(), later[init.as_cpp()]))
    query_ast_visitor.emit_query = real_emit
    known = [k for k in json.load(open(os.path.join(ROOT, "known_findings.json")))["findings"]
             if k.get("bounded") == "C01/bounded:initialiser_discipline" and not k.get("fixed")]
    listed = {q: k for k in known for q in k.get("inputs", [])}
    for k in known:
        hit = [q for q in k.get("inputs", []) if q in failing]
        if hit:
            results.append(dict(name="C01/bounded:initialiser_discipline[%s]" % k["id"], kind="bounded", status="violation", known=k["what"],
                                detail=failing[hit[0]], input=hit, bound="listed known finding", evaluations=len(hit), exhaustive=False))
    other = {q: m for q, m in failing.items() if q not in listed}
    results.append(dict(name="C01/bounded:initialiser_discipline", kind="bounded", status="violation" if other else "ok",
                        detail="; ".join("%s: %s" % (q, m) for q, m in list(other.items())[:2]), input=list(other) or None,
                        bound="%d probe queries (aggregates with literal / computed seeds, Range with computed bounds, First, conditionals, boolean operators), ATLAS back end" % len(PROBES),
                        evaluations=len(PROBES), distinct=len(PROBES), exhaustive=False))
except Exception as e:  # noqa
    results.append(dict(name="C01/bounded:initialiser_discipline", kind="bounded", status="undecided", detail="stand-in crashed: %r" % (e,)))
print(json.dumps(dict(results=results)))
