# C03 -- output tree schema and returned descriptor match the query's final shape.  (also C05 clear-after-fill, C09 label count)
GC = "func_adl_xAOD.common.generated_code.generated_code"
CRQ = "func_adl_xAOD.common.cpp_representation."
SEQR = RefOf(CRQ + "cpp_sequence")
COLTYPE = "func_adl_xAOD.common.cpp_types.collection"

contract("ast.literal_eval", assumed=True, params=dict(node_or_string=Ref), result=PyU, may_raise=["ValueError"], strict=False,
         ensures=["u_is_str(result) or u_is_list(result)", "implies(u_is_list(result), len(u_list(result)) >= 0)"],
         note="ast.literal_eval on the name arguments of ResultTTree: a str or a list of str (assumption on the query producer: "
              "func_adl always passes literal strings / lists of strings there)")

contract(TR + "find_fill_scope", assumed=True, params=dict(a=Ref), result=Ref, may_raise=["RuntimeError"], strict=False,
         ensures=["result != None and live(result)"],
         note="walks the query ast with a nested NodeVisitor class (outside the verified subset); pure")

contract(TR + "_extract_column_names", props=["C03"], params=dict(names_ast=Ref), result=TList(Str), may_raise=["Exception"], strict=False,
         ensures=[("list_of_names", "len(result) >= 0")])
# (a single name is returned as a one-element list: proved as part of the same contract)

contract(GC + ".get_rep", assumed=True, params=dict(self=RefOf(GC), name=Ref), result=RefOf(CRQ + "cpp_rep_base"),
         ensures=["implies(result != None, live(result) and any(name in field(b, '_rep_dict') and field(b, '_rep_dict')[name] == result "
                  "for b in field(self, '_scope_stack')))",
                  "implies(result == None, all(not (name in field(b, '_rep_dict')) or field(b, '_rep_dict')[name] == None for b in field(self, '_scope_stack')))"],
         note="generator pipeline over reversed(_scope_stack) (outside the verified subset): the innermost binding on the cursor stack, or None")

# ---- as_sequence: CVC + the result is a live sequence ------------------------------------------------------------
contract(TR + "query_ast_visitor.as_sequence", props=["C01", "C09"],
         params=dict(self=QV, generation_ast=Ref), result=REP,
         requires=CVC_REQUIRES + [("node", "generation_ast != None")], modifies=CVC_MODIFIES, may_raise=["Exception"], strict=False,
         ensures=CVC_ENSURES + [("some_rep", "result != None and live(result)"),
                                ("sequence_unless_cached", "isinst(result, '" + CRQ + "cpp_sequence') or "
                                                           "any(field(generation_ast, 'rep') in field(b, '_rep_dict') and field(b, '_rep_dict')[field(generation_ast, 'rep')] == result "
                                                           "for b in cursor(self))")])
# (the per-block cache _rep_dict maps collections to the sequences built for them; that its values are sequences is a
#  whole-translator invariant, not provable from as_sequence alone)

contract(TR + "rep_is_collection", props=["C03", "C05"], params=dict(rep=REP), result=Bool,
         ensures=[("def", "result == (isinst(rep, '" + CRQ + "cpp_sequence') or isinst(rep, '" + CRQ + "cpp_collection'))")])


def leaf_kind(t):
    "the type name a column of declared type t is written with: its declared tree type if any, else the type itself"
    return field(t, "_type", "func_adl_xAOD.common.cpp_types.terminal") if field(t, "_tree_type") == None else field(t, "_tree_type")


def is_plain_value(rep):
    return isinst(rep, CRQ + "cpp_value")


def seq_value(rep):
    return field(rep, "_sequence")


contract(TR + "get_ttree_type", props=["C03", "C10", "C09"], params=dict(rep=REP), result=TERM,
         requires=[("sequence_invariant", "implies(isinst(rep, '" + CRQ + "cpp_sequence'), seq_value(rep) != None and live(seq_value(rep)) and "
                                          "(field(rep, '_type', '" + CRQ + "cpp_sequence') == None or isinst(field(rep, '_type', '" + CRQ + "cpp_sequence'), '" + COLTYPE + "')))"),
                   ("nested_sequence_invariant", "implies(isinst(rep, '" + CRQ + "cpp_sequence') and isinst(seq_value(rep), '" + CRQ + "cpp_sequence'), "
                                                 "field(seq_value(rep), '_type', '" + CRQ + "cpp_sequence') == None or (isinst(field(seq_value(rep), '_type', '" + CRQ + "cpp_sequence'), '" + COLTYPE + "') and "
                                                 "field(field(seq_value(rep), '_type', '" + CRQ + "cpp_sequence'), '_tree_type') == None))")],
         covers=["isinst(rep, '" + CRQ + "cpp_sequence') and is_plain_value(seq_value(rep))",
                 "isinst(rep, '" + CRQ + "cpp_sequence') and isinst(seq_value(rep), '" + CRQ + "cpp_sequence')",
                 "is_plain_value(rep) and field(type_of(rep), '_tree_type') != None"],
         modifies=["_type@" + CRQ + "cpp_sequence", "alloc"], may_raise=["Exception"], strict=False,
         raises={"RuntimeError": "isinst(rep, '" + CRQ + "cpp_sequence') and not (isinst(seq_value(rep), '" + CRQ + "cpp_value') or isinst(seq_value(rep), '" + CRQ + "cpp_sequence'))"},
         ensures=[("some_type", "result != None and live(result)"),
                  ("scalar_column@C03,C10", "implies(is_plain_value(rep) and not isinst(rep, '" + CRQ + "cpp_sequence'), result != None and live(result) and "
                                             "field(result, '_type', 'func_adl_xAOD.common.cpp_types.terminal') == leaf_kind(old(type_of(rep))) and "
                                             "field(result, '_p_depth') == field(old(type_of(rep)), '_p_depth'))"),
                  ("vector_column@C03,C10", "implies(isinst(rep, '" + CRQ + "cpp_sequence') and is_plain_value(seq_value(rep)), "
                                            "result != None and is_new(result) and cls_is(result, '" + COLTYPE + "') and "
                                            "field(field(result, '_element_type'), '_type', 'func_adl_xAOD.common.cpp_types.terminal') == leaf_kind(old(type_of(seq_value(rep)))) and "
                                            "field(result, '_p_depth') == 0)"),
                  ("nested_vector_column@C03", "implies(isinst(rep, '" + CRQ + "cpp_sequence') and isinst(seq_value(rep), '" + CRQ + "cpp_sequence'), "
                                               "result != None and is_new(result) and cls_is(result, '" + COLTYPE + "') and "
                                               "isinst(field(result, '_element_type'), '" + COLTYPE + "'))")])

contract(TR + "query_ast_visitor.code_fill_ttree", assumed=True,
         params=dict(self=QV, e_rep=REP, e_name=VAL, scope_fill=RefOf(SCOPE)), result=RefOf(SCOPE),
         requires=CVC_REQUIRES, modifies=CVC_MODIFIES, may_raise=["Exception"], strict=False,
         ensures=CVC_ENSURES + ["result != None and live(result)"],
         note="fill placement for one column (nested closures, recursion over sequence levels): under the CVC only")

LEAVES = TList(TTup([Str, VAL]))
CVAR = "func_adl_xAOD.common.cpp_representation.cpp_variable"
TUP = "func_adl_xAOD.common.cpp_representation.cpp_tuple"


def col_values(t):
    "the column values of the (normalised) tuple of the final sequence"
    return field(t, "_values", "func_adl_xAOD.common.cpp_representation.cpp_tuple")


def class_vars(self):
    return field(gc_of(self), "_class_vars")


uninterpreted("cpp_ident", [Str], Str)
contract(TR + "cpp_identifier_from", assumed=True, pure_fn="cpp_ident", params=dict(name=Str), result=Str,
         note="DEFINITION of the ghost function cpp_ident: the column name with every character that cannot appear in a C++ identifier replaced by '_' "
              "(re.sub over str: outside the encoding; that the result consists of identifier characters only, has the length of the name and is the "
              "name itself when that is an identifier already is checked exhaustively on the real helper for short strings, checks/c03.py)")


def column_var_ok(pair, name):
    "the storage of one column: a fresh class-level variable named after the column (made an identifier); the branch keeps the column's own name"
    return (pair[0] == name and pair[1] != None and cls_is(pair[1], "func_adl_xAOD.common.cpp_representation.cpp_variable") and
            startswith(expr_of(pair[1]), "_" + cpp_ident(name)) and field(pair[1], "_initial_value") == None and type_of(pair[1]) != None)


RT_COLS = [("L.columns", "all(column_var_ok(var_names[k], column_names[k]) for k in range(0, len(var_names)))"),
           ("L.count", "len(var_names) == len(column_names)")]
RT_MEMBERS = [("L.members", "len(class_vars(self)) >= g_cv0 + len(var_names) and "
                            "all(class_vars(self)[q] == var_names[q - g_cv0][1] for q in range(g_cv0, g_cv0 + len(var_names)))")]
RT_BOOK = [("L.booked", "g_book != None and g_bk0 >= 0 and g_bk0 < len(field(field(gc_of(self), '_book_block'), '_statements')) and "
                        "field(field(gc_of(self), '_book_block'), '_statements')[g_bk0] == g_book")]
IntIntMap = TMap(Int, Int)
CLEAR = "func_adl_xAOD.common.statement.container_clear"


def is_coll(rep):
    return isinst(rep, "func_adl_xAOD.common.cpp_representation.cpp_sequence") or isinst(rep, "func_adl_xAOD.common.cpp_representation.cpp_collection")


def stmts(b):
    return field(b, "_statements")


RT_CLEAR = [
    ("F.fill_in_place", "g_fblock != None and g_f0 >= 0 and g_f0 < len(stmts(g_fblock)) and stmts(g_fblock)[g_f0] == g_fill and "
                        "len(cursor(self)) >= 1 and top_block(cursor(self)) == g_fblock"),
    ("F.only_clears_after_fill", "all(cls_is(stmts(g_fblock)[q], '" + CLEAR + "') and 0 <= g_src[q] and g_src[q] < _i and "
                                 "is_coll(col_values(seq_values)[g_src[q]]) and "
                                 "field(stmts(g_fblock)[q], '_collection', '" + CLEAR + "') == var_names[g_src[q]][1] "
                                 "for q in range(g_f0 + 1, len(stmts(g_fblock))))"),
    ("F.every_vector_column_cleared", "all(implies(is_coll(col_values(seq_values)[k]), g_f0 < g_clr[k] and g_clr[k] < len(stmts(g_fblock)) and "
                                      "cls_is(stmts(g_fblock)[g_clr[k]], '" + CLEAR + "') and "
                                      "field(stmts(g_fblock)[g_clr[k]], '_collection', '" + CLEAR + "') == var_names[k][1]) for k in range(0, _i))"),
]
RT_INV = CVC_LOOP_INV

contract(TR + "query_ast_visitor.call_ResultTTree", props=["C03", "C05", "C09", "C02", "C18"],
         replay={"label_count": "ttree_label_mismatch", "tree_and_column_names_are_string_literals": "tree_and_column_names",
                 "one_variable_per_column": "tree_and_column_names", "fill_then_clear_every_vector_column": "clear_after_fill",
                 "one_fill_per_row_where_the_row_sequence_is_iterated": "fill_once_per_row"},
         params=dict(self=QV, node=RefOf("ast.Call"), args=TList(Ref)), result=REP,
         requires=CVC_REQUIRES + [("args", "all(a != None and live(a) for a in args)"),
                                  ("cursor", "len(cursor(self)) >= 1 and all(b != None and live(b) for b in cursor(self))"),
                                  ("book", "field(gc_of(self), '_book_block') != None and live(field(gc_of(self), '_book_block'))")],
         modifies=CVC_MODIFIES + ["_tree_name", "_leaves", "filename", "treename"], may_raise=["Exception"], strict=False,
         local_sorts=dict(column_names=TList(Str), var_names=LEAVES, g_cv0=Int, g_book=Ref, g_bk0=Int, g_desc=Ref,
                          g_fblock=RefOf(BLOCK), g_f0=Int, g_fill=Ref, g_src=IntIntMap, g_clr=IntIntMap, g_row=RefOf(SCOPE)),
         ghost_init=["g_cv0 = 0", "g_book = None", "g_bk0 = 0", "g_desc = None", "g_fblock = None", "g_f0 = 0", "g_fill = None",
                     "g_src = any_value(IntIntMap)", "g_clr = any_value(IntIntMap)", "g_row = None"],
         ghost={"after:var_names = [": ["g_cv0 = len(class_vars(self))"],
                "after:scope_fill = self.as_sequence(find_fill_scope(source)).scope()": ["g_row = scope_fill"],
                "after:crep.set_rep(": ["g_desc = rep_of(node)"],
                "after:self._gc.add_statement(self.create_ttree_fill_obj(": [
                    "g_fblock = top_block(cursor(self))", "g_f0 = len(stmts(g_fblock)) - 1", "g_fill = stmts(g_fblock)[g_f0]"],
                "after:self._gc.add_statement(statement.container_clear(": [
                    "g_src = store(g_src, len(stmts(g_fblock)) - 1, _i)", "g_clr = store(g_clr, _i, len(stmts(g_fblock)) - 1)"],
                "after:self._gc.add_book_statement(": ["g_bk0 = len(field(field(gc_of(self), '_book_block'), '_statements')) - 1",
                                                       "g_book = field(field(gc_of(self), '_book_block'), '_statements')[g_bk0]"]},
         ensures=CVC_ENSURES + [
             ("label_count@C03,C09", "len(col_values(final_seq_values)) == len(final_column_names)"),
             ("tree_and_column_names_are_string_literals@C18,C03", "cxx_string_ok(final_tree_name) and "
                                                                   "all(cxx_string_ok(final_column_names[k]) for k in range(0, len(final_column_names)))"),
             ("one_variable_per_column@C03,C02", "len(final_var_names) == len(final_column_names) and "
                                                 "all(column_var_ok(final_var_names[k], final_column_names[k]) for k in range(0, len(final_var_names)))"),
             ("columns_are_class_members@C03,C02", "len(class_vars(self)) >= final_g_cv0 + len(final_var_names) and "
                                                   "all(class_vars(self)[q] == final_var_names[q - final_g_cv0][1] "
                                                   "for q in range(final_g_cv0, final_g_cv0 + len(final_var_names)))"),
             ("one_booking_statement@C03", "final_g_book != None and isinst(final_g_book, '" + "func_adl_xAOD.common.statement.book_ttree" + "') and "
                                           "field(final_g_book, '_tree_name') == final_tree_name and seq_eq(field(final_g_book, '_leaves'), final_var_names) and "
                                           "field(field(gc_of(self), '_book_block'), '_statements')[final_g_bk0] == final_g_book"),
             ("fill_then_clear_every_vector_column@C05,C03",
              "final_g_fill != None and isinst(final_g_fill, 'func_adl_xAOD.common.statement.ttree_fill') and "
              "field(final_g_fill, '_tree_name') == final_tree_name and stmts(final_g_fblock)[final_g_f0] == final_g_fill and "
              "all(cls_is(stmts(final_g_fblock)[q], '" + CLEAR + "') and is_coll(col_values(final_seq_values)[final_g_src[q]]) and "
              "field(stmts(final_g_fblock)[q], '_collection', '" + CLEAR + "') == final_var_names[final_g_src[q]][1] "
              "for q in range(final_g_f0 + 1, len(stmts(final_g_fblock)))) and "
              "all(implies(is_coll(col_values(final_seq_values)[k]), final_g_f0 < final_g_clr[k] and final_g_clr[k] < len(stmts(final_g_fblock)) and "
              "field(stmts(final_g_fblock)[final_g_clr[k]], '_collection', '" + CLEAR + "') == final_var_names[k][1]) "
              "for k in range(0, len(final_var_names)))"),
             ("one_fill_per_row_where_the_row_sequence_is_iterated@C05,C01,C03",
              "final_g_row != None and implies(not is_top(final_g_row) and len(stack_of(final_g_row)) >= 1, final_g_fblock == top_block(stack_of(final_g_row)))"),
             ("descriptor@C03", "final_g_desc != None and cls_is(final_g_desc, 'func_adl_xAOD.common.result_ttree.cpp_ttree_rep') and "
                                "field(final_g_desc, 'treename') == final_tree_name and field(final_g_desc, 'filename') == 'ANALYSIS.root' and rep_of(node) == result"),
         ],
         loops={"comp1": dict(sorts={"_comp1": LEAVES}, modifies=CVC_MODIFIES + ["_type@" + CRQ + "cpp_sequence"],
                              needs={"L.built": ["L.built", "L.len"]},
                              invariant=RT_INV + [("L.len", "len(_comp1) == _i and _i <= len(column_names)"),
                                                  ("L.built", "all(column_var_ok(_comp1[k], column_names[k]) for k in range(0, _i))")]),
                1: dict(modifies=[], invariant=[("L.literal_names", "cxx_string_ok(tree_name) and all(cxx_string_ok(column_names[k]) for k in range(0, _i))")]),
                2: dict(modifies=["_class_vars"], needs={"L.columns": ["L.built", "L.len"], "L.count": ["L.len"]},
                        invariant=RT_INV + RT_COLS + [("L.appended", "len(class_vars(self)) == g_cv0 + _i and "
                                                                      "all(class_vars(self)[q] == var_names[q - g_cv0][1] for q in range(g_cv0, g_cv0 + _i))")]),
                3: dict(modifies=CVC_MODIFIES, needs={"L.members": ["L.members", "L.gc", "L.count", "L.appended", "L.len", "L.cvc.members_grow"]},
                        invariant=RT_INV + RT_COLS + RT_MEMBERS + RT_BOOK + [("L.book", "field(gc_of(self), '_book_block') == old(field(gc_of(self), '_book_block'))")]),
                4: dict(modifies=["_statements"], ghost_mods=["g_src", "g_clr"], invariant=RT_INV + RT_COLS + RT_MEMBERS + RT_BOOK + RT_CLEAR)})

# ---- per-backend booking / fill statement factories: one virtual contract, every override verified against it -------
BOOKT = "func_adl_xAOD.common.statement.book_ttree"
FILLT = "func_adl_xAOD.common.statement.ttree_fill"
_book_ens = [("booking_statement", "result != None and is_new(result) and isinst(result, '" + BOOKT + "') and field(result, '_tree_name') == tree_name "
                                   "and seq_eq(field(result, '_leaves'), leaves)"),
             ("nothing_else", "frame('_tree_name', result) and frame('_leaves', result)")]
_fill_ens = [("fill_statement", "result != None and is_new(result) and isinst(result, '" + FILLT + "') and field(result, '_tree_name') == tree_name"),
             ("nothing_else", "frame('_tree_name', result)")]
contract(TR + "query_ast_visitor.create_book_ttree_obj", virtual=True, assumed=True, params=dict(self=QV, tree_name=Str, leaves=LEAVES),
         result=RefOf(BOOKT), modifies=["_tree_name", "_leaves", "alloc"], ensures=_book_ens,
         note="abstract; the three back-end overrides are verified against the same clauses below")
contract(TR + "query_ast_visitor.create_ttree_fill_obj", virtual=True, assumed=True, params=dict(self=QV, tree_name=Str),
         result=RefOf(FILLT), modifies=["_tree_name", "alloc"], ensures=_fill_ens,
         note="abstract; the three back-end overrides are verified against the same clauses below")
for _mod, _cls in [("func_adl_xAOD.atlas.xaod.query_ast_visitor", "atlas_xaod_query_ast_visitor"),
                   ("func_adl_xAOD.cms.aod.query_ast_visitor", "cms_aod_query_ast_visitor"),
                   ("func_adl_xAOD.cms.miniaod.query_ast_visitor", "cms_miniaod_query_ast_visitor")]:
    contract(_mod + "." + _cls + ".create_book_ttree_obj", props=["C03", "C02"], params=dict(self=RefOf(_mod + "." + _cls), tree_name=Str, leaves=LEAVES),
             result=RefOf(BOOKT), modifies=["_tree_name", "_leaves", "alloc"], ensures=_book_ens)
    contract(_mod + "." + _cls + ".create_ttree_fill_obj", props=["C03", "C02"], params=dict(self=RefOf(_mod + "." + _cls), tree_name=Str),
             result=RefOf(FILLT), modifies=["_tree_name", "alloc"], ensures=_fill_ens)
