# C15 -- job-script blocks are emitted once each in dependency order.
# Full functional correctness + termination of generate_script_block (common/meta_data.py).
# Names and lines are abstract sorts: the code only compares / hashes them.

MD = "func_adl_xAOD.common.meta_data."
NameInt = TMap(Name, Int)
IntName = TMap(Int, Name)
IntInt = TMap(Int, Int)
NameSet = TSet(Name)
Lines = TList(Line)

W_INV = [
    ("W0.count", "cnt == len(seen_blocks) and cnt >= 0"),
    ("W1.seen_known", "forall(Name, lambda n: implies(n in seen_blocks, n in dependencies))"),
    ("W2.pos", "forall(Name, lambda n: implies(n in seen_blocks, 0 <= pos[n] and pos[n] < cnt and at[pos[n]] == n))"),
    ("W2.at", "forall(int, lambda p: implies(0 <= p and p < cnt, at[p] in seen_blocks and pos[at[p]] == p))"),
    ("W3.layout", "forall(Name, lambda n: implies(n in seen_blocks, 0 <= start[n] and start[n] + len(block_lookup[n].script) <= len(script_text) "
                  "and all(script_text[start[n] + k] == block_lookup[n].script[k] for k in range(0, len(block_lookup[n].script)))))"),
    ("W4.interval_order", "forall(Name, Name, lambda a, b: implies(a in seen_blocks and b in seen_blocks and pos[a] < pos[b], "
                          "start[a] + len(block_lookup[a].script) <= start[b]))"),
    ("W5.deps_first", "forall(Name, lambda n: implies(n in seen_blocks, all(dependencies[n][m] in seen_blocks and pos[dependencies[n][m]] < pos[n] "
                      "for m in range(0, len(dependencies[n])))))"),
    ("W6.cover", "all(owner[p] in seen_blocks and start[owner[p]] <= p and p < start[owner[p]] + len(block_lookup[owner[p]].script) "
                 "for p in range(0, len(script_text)))"),
]

uninterpreted("script_block_of", [TList(JobScriptSpecification)], TList(Str))  # ghost: generate_script_block as a function of its argument
contract(MD + "generate_script_block", pure_fn="script_block_of",
         props=["C15"],
         params=dict(blocks=TList(JobScriptSpecification)),
         result=Lines,
         local_sorts=dict(dependencies=TDict(Name, TList(Name)), block_lookup=TDict(Name, JobScriptSpecification),
                          seen_blocks=NameSet, script_text=Lines, why=Int, first=NameInt, pos=NameInt, start=NameInt, owner=IntName),
         ghost_init=["first = any_value(NameInt)", "off = any_value(IntInt)", "pos = any_value(NameInt)", "start = any_value(NameInt)",
                     "at = any_value(IntName)", "owner = any_value(IntName)", "owner0 = owner", "cnt = 0", "card0 = 0", "why = 0",
                     "L0 = 0", "T0 = any_value(Lines)", "seen0 = any_value(NameSet)"],
         ghost={
             "after:block_lookup[b.name] = b": ["first = store(first, b.name, _i)"],
             "after:if b.name not in dependencies": ["off = store(off, _i, len(dependencies[b.name]))"],
             "after:seen_blocks.add(j.name)": ["pos = store(pos, j.name, cnt)", "at = store(at, cnt, j.name)",
                                               "start = store(start, j.name, L0)", "cnt = cnt + 1"],
             "before:raise#1": ["why = 1"],
             "before:raise#2": ["why = 2"],
             "before:raise#3": ["why = 3"],
         },
         may_raise=["ValueError"],
         oracle="c15_generate_script_block",
         pools={"len": [0, 1, 2, 3, 3, 4, 4], "str": ["A", "B", "C", "l1", "l2"],
                "JobScriptSpecification.name": [{"t": "str", "v": x} for x in ["A", "B", "C"]],
                "JobScriptSpecification.script": [{"t": "list", "v": [{"t": "str", "v": y} for y in x]} for x in [["l1"], ["l2"], ["l1", "l2"], [], ["l1"]]],
                "JobScriptSpecification.depends_on": [{"t": "list", "v": [{"t": "str", "v": y} for y in x]}
                                                      for x in [[], [], ["A"], ["B"], ["C"], ["A", "A"], ["A", "B"], ["B", "A", "B"], ["A", "C"], ["C", "B"], ["D"], ["B", "B", "C"]]]},
         needs={"dependencies_sent_and_earlier": ["I1a.names", "I1b.same_keys", "I1c.first", "I1e.deps_merged", "W1.seen_known", "W5.deps_first"],
                "missing_dependency": [],
                "cycle": ["C2.unchanged", "C3.blocked", "I1b.same_keys", "I2.present", "W1.seen_known", "W0.count"]},
         ensures_raise={"ValueError": [
             ("raise_site", "final_why == 1 or final_why == 2 or final_why == 3"),
             ("conflict", "implies(final_why == 1, any(any(blocks[i].name == blocks[j].name and blocks[i].script != blocks[j].script "
                          "for j in range(0, len(blocks))) for i in range(0, len(blocks))))"),
             ("missing_dependency", "implies(final_why == 2, any(any(final_dependencies[dict_keys(final_dependencies)[p]][m] not in final_dependencies "
                                    "for m in range(0, len(final_dependencies[dict_keys(final_dependencies)[p]]))) "
                                    "for p in range(0, len(final_dependencies))))"),
             ("names_are_sent_names", "implies(final_why == 2 or final_why == 3, all(blocks[i].name in final_dependencies for i in range(0, len(blocks))) "
                                      "and forall(Name, lambda n: implies(n in final_dependencies, 0 <= final_first[n] and final_first[n] < len(blocks) "
                                      "and blocks[final_first[n]].name == n)))"),
             ("cycle", "implies(final_why == 3, len(final_seen_blocks) < len(final_dependencies) and "
                       "forall(Name, lambda n: implies(n in final_dependencies and n not in final_seen_blocks, "
                       "any(final_dependencies[n][m] in final_dependencies and final_dependencies[n][m] not in final_seen_blocks "
                       "for m in range(0, len(final_dependencies[n]))))))"),
         ]},
         ensures=[
             ("no_block_dropped", "all(blocks[i].name in final_seen_blocks for i in range(0, len(blocks)))"),
             ("no_conflict", "all(all(implies(blocks[i].name == blocks[j].name, blocks[i].script == blocks[j].script) "
                             "for j in range(0, len(blocks))) for i in range(0, len(blocks)))"),
             ("lines_in_place", "all(0 <= final_start[blocks[i].name] and final_start[blocks[i].name] + len(blocks[i].script) <= len(result) "
                                "and all(result[final_start[blocks[i].name] + k] == blocks[i].script[k] for k in range(0, len(blocks[i].script))) "
                                "for i in range(0, len(blocks)))"),
             ("blocks_disjoint", "all(all(implies(blocks[i].name != blocks[j].name, "
                                 "final_start[blocks[i].name] + len(blocks[i].script) <= final_start[blocks[j].name] or "
                                 "final_start[blocks[j].name] + len(blocks[j].script) <= final_start[blocks[i].name]) "
                                 "for j in range(0, len(blocks))) for i in range(0, len(blocks)))"),
             ("every_line_from_a_block", "all(0 <= final_first[final_owner[p]] and final_first[final_owner[p]] < len(blocks) and "
                                         "blocks[final_first[final_owner[p]]].name == final_owner[p] and "
                                         "final_start[final_owner[p]] <= p and "
                                         "p < final_start[final_owner[p]] + len(blocks[final_first[final_owner[p]]].script) "
                                         "for p in range(0, len(result)))"),
             ("dependencies_sent_and_earlier", "all(all(blocks[i].depends_on[m] in final_seen_blocks and "
                                               "0 <= final_first[blocks[i].depends_on[m]] and final_first[blocks[i].depends_on[m]] < len(blocks) and "
                                               "blocks[final_first[blocks[i].depends_on[m]]].name == blocks[i].depends_on[m] and "
                                               "final_pos[blocks[i].depends_on[m]] < final_pos[blocks[i].name] "
                                               "for m in range(0, len(blocks[i].depends_on))) for i in range(0, len(blocks)))"),
             ("position_order_is_text_order", "all(all(implies(final_pos[blocks[i].name] < final_pos[blocks[j].name], "
                                              "final_start[blocks[i].name] + len(blocks[i].script) <= final_start[blocks[j].name]) "
                                              "for j in range(0, len(blocks))) for i in range(0, len(blocks)))"),
         ],
         loops={
             1: dict(sorts=dict(), invariant=[
                 ("I1a.names", "all(blocks[k].name in dependencies for k in range(0, _i))"),
                 ("I1b.same_keys", "forall(Name, lambda n: (n in dependencies) == (n in block_lookup))"),
                 ("I1c.first", "forall(Name, lambda n: implies(n in block_lookup, 0 <= first[n] and first[n] < _i and "
                               "blocks[first[n]] == block_lookup[n] and blocks[first[n]].name == n))"),
                 ("I1d.same_script", "all(blocks[k].script == block_lookup[blocks[k].name].script for k in range(0, _i))"),
                 ("I1e.deps_merged", "all(off[k] >= 0 and off[k] + len(blocks[k].depends_on) <= len(dependencies[blocks[k].name]) and "
                                     "all(dependencies[blocks[k].name][off[k] + m] == blocks[k].depends_on[m] for m in range(0, len(blocks[k].depends_on))) "
                                     "for k in range(0, _i))"),
             ], needs={"I1e.deps_merged": ["I1e.deps_merged", "I1a.names", "I1b.same_keys"]}),
             2: dict(needs={"I2.present": ["I2.present", "I3.present"]}, invariant=[
                 ("I2.present", "all(all(dependencies[dict_keys(dependencies)[p]][m] in dependencies "
                                "for m in range(0, len(dependencies[dict_keys(dependencies)[p]]))) for p in range(0, _i))"),
             ]),
             3: dict(invariant=[("I3.present", "all(deps[m] in dependencies for m in range(0, _i))")]),
             4: dict(invariant=W_INV, variant="len(dependencies) - len(seen_blocks)",
                     ghost_begin=["card0 = len(seen_blocks)", "seen0 = seen_blocks"],
                     ghost_mods=["pos", "start", "at", "owner", "owner0", "cnt", "L0", "T0"],
                     exit_lemmas=["pigeonhole(seen_blocks, dependencies)"]),
             5: dict(invariant=W_INV + [
                 ("C1.progress", "len(seen_blocks) >= card0 and implies(emitted, len(seen_blocks) > card0)"),
                 ("C2.unchanged", "implies(not emitted, seen_blocks == seen0 and len(seen_blocks) == card0)"),
                 ("C3.blocked", "implies(not emitted, all(dict_keys(block_lookup)[p] in seen_blocks or "
                                "any(dependencies[dict_keys(block_lookup)[p]][m] not in seen_blocks "
                                "for m in range(0, len(dependencies[dict_keys(block_lookup)[p]]))) for p in range(0, _i)))"),
             ], ghost_begin=["L0 = len(script_text)", "T0 = script_text", "owner0 = owner"],
                 ghost_mods=["pos", "start", "at", "owner", "cnt"],
                 needs={"W6.cover": ["W6.cover", "S1.length", "S4.owner", "I1c.first", "W0.count", "W3.layout"]}),
             6: dict(invariant=[
                 ("S1.length", "len(script_text) == L0 + _i"),
                 ("S2.prefix", "all(script_text[p] == T0[p] for p in range(0, L0))"),
                 ("S3.appended", "all(script_text[q] == j.script[q - L0] for q in range(L0, L0 + _i))"),
                 ("S4.owner", "all(owner[p] == owner0[p] for p in range(0, L0)) and all(owner[q] == j.name for q in range(L0, L0 + _i))"),
             ], ghost_end=["owner = store(owner, len(script_text) - 1, j.name)"],
                 needs={"S4.owner": ["S1.length", "S4.owner"], "S3.appended": ["S1.length", "S3.appended"],
                        "S2.prefix": ["S1.length", "S2.prefix"], "S1.length": ["S1.length"]}),
         })


# ---- insertion into the job options (atlas/xaod/executor.py:48-54) -------------------------------------------------
REPL = TKDict("Replacement", dict(job_option_additions=TList(Str)))
AEX = "func_adl_xAOD.atlas.xaod.executor.atlas_xaod_executor"
contract(AEX + ".add_to_replacement_dict", props=["C15"], params=dict(self=RefOf(AEX)), result=REPL, may_raise=["ValueError"], strict=False,
         ensures=[("additions_are_the_script_block", "'job_option_additions' in result and "
                                                     "result['job_option_additions'] == script_block_of(field(self, '_job_option_blocks'))")])
