# Heap schema, value records and module-level state of func_adl_xAOD as seen by the verifier.
# Sidecar file: nothing here is imported from /repo; field names are checked against the class sources at bind time.

P = "func_adl_xAOD.common."

# ---------------------------------------------------------------- value records (dataclasses: == is field-wise)
Line = Str
Name = Str

CPPParsedTypeInfo = record(P + "cpp_types.CPPParsedTypeInfo",
                           TRec("CPPParsedTypeInfo", [("name", Str), ("pointer_depth", Int), ("is_const", Bool)]))

InjectCodeBlock = record(P + "meta_data.InjectCodeBlock",
                         TRec("InjectCodeBlock", [("name", Str), ("body_includes", TList(Str)), ("header_includes", TList(Str)),
                                                  ("private_members", TList(Str)), ("instance_initialization", TList(Str)),
                                                  ("ctor_lines", TList(Str)), ("initialize_lines", TList(Str)),
                                                  ("link_libraries", TList(Str))]))

JobScriptSpecification = record(P + "meta_data.JobScriptSpecification",
                                TRec("JobScriptSpecification", [("name", Name), ("script", TList(Line)), ("depends_on", TList(Name))]))

MethodInvokeInfo = record(P + "cpp_types.MethodInvokeInfo",
                          TRec("MethodInvokeInfo", [("r_type", RefOf(P + "cpp_types.terminal")), ("deref_depth", Int)]))

# ---------------------------------------------------------------- heap fields (Burstall-Bornat: one array per field name)
T = P + "cpp_types.terminal"
TERM = RefOf(T)
TYPETEXT = pseudo_base("verif.TypeText", [T])
VAL = RefOf(P + "cpp_representation.cpp_value")
field("_type", Str)
field("_p_depth", Int)
field("_is_const", Bool)
field("_tree_type", TOpt(Str))
field("_element_type", RefOf(T))

CV = P + "cpp_representation.cpp_value"
field("_expression", Str)
SCOPE = pseudo_base("verif.ScopeToken", [P + "util_scope.gc_scope", P + "util_scope.gc_scope_top_level"])
field("_scope", RefOf(SCOPE))
field("_cpp_type", RefOf(T))
field("_initial_value", RefOf(CV))

# ---------------------------------------------------------------- module state
glob(P + "cpp_vars.unique_var_index", Int)
glob(P + "cpp_types.g_method_type_dict", TDict(Str, TDict(Str, MethodInvokeInfo)))

# ---------------------------------------------------------------- python ast nodes (external classes, closed list in pyvc/front.py)
AST = RefOf("ast.AST")
CALL = RefOf("ast.Call")
field("func", Ref)
field("args", TList(Ref))
field("args", RefOf("ast.arguments"), cls="ast.Lambda")            # Lambda.args is an ast.arguments object
field("args", TList(Ref), cls="ast.arguments")  # arguments.args is a list of ast.arg
field("keywords", TList(Ref))
field("arg", Str)
field("op", Ref)
field("left", Ref)
field("right", Ref)
field("operand", Ref)
field("value", Ref)
field("value", PYVAL, cls="ast.Constant")
field("ops", TList(Ref))
field("comparators", TList(Ref))
field("values", TList(Ref))
field("keys", TList(Ref))
field("elts", TList(Ref))
field("test", Ref)
field("body", Ref)
field("orelse", Ref)
field("id", Str)
field("attr", Str)
field("slice", Ref)
field("n", PYVAL)
field("s", Str)
field("rep", RefOf(P + "cpp_representation.cpp_rep_base"))      # dynamic attribute set by crep.set_rep; null = absent
field("scope", RefOf(SCOPE))    # dynamic attribute set by crep.set_rep(.., scope); null = absent

# ---------------------------------------------------------------- C++ representations
REP = RefOf(P + "cpp_representation.cpp_rep_base")
SEQ = P + "cpp_representation.cpp_sequence"
field("_sequence", RefOf(P + "cpp_representation.cpp_rep_base"))
field("_iterator", RefOf(P + "cpp_representation.cpp_value"))
field("_type", RefOf(P + "cpp_types.terminal"), cls=SEQ)
field("_node", Ref)
field("_values", TList(RefOf(P + "cpp_representation.cpp_rep_base")))
field("_values", TDict(Ref, Ref), cls=P + "cpp_representation.cpp_dict")
field("filename", Str)
field("treename", Str)

# ---------------------------------------------------------------- IR: blocks and statements
BLOCK = P + "statement.block"
ST = P + "statement."
STMT = pseudo_base("verif.Statement", [ST + "block", ST + "set_var", ST + "push_back", ST + "container_clear", ST + "arbitrary_statement",
                                       ST + "book_ttree", ST + "ttree_fill"])
field("_statements", TList(RefOf(STMT)))
field("_variables", TList(RefOf(P + "cpp_representation.cpp_value")))
field("_rep_dict", TDict(Ref, Ref))
field("_collection", RefOf(P + "cpp_representation.cpp_value"))
field("_loop_variable", RefOf(P + "cpp_representation.cpp_value"))
field("_expr", RefOf(P + "cpp_representation.cpp_value"))
field("_target", RefOf(P + "cpp_representation.cpp_value"))
field("_value", RefOf(P + "cpp_representation.cpp_value"))
field("_line", Str)
field("_tree_name", Str)
field("_leaves", TList(TTup([Str, VAL])))
field("_scope_stack", TList(RefOf(BLOCK)))
field("_block", RefOf(BLOCK))
field("_book_block", RefOf(BLOCK))
field("_class_vars", TList(RefOf(P + "cpp_representation.cpp_value")))
field("_include_files", TList(Str))
field("_link_libraries", TList(Str))
field("_gc", RefOf(P + "generated_code.generated_code"))
ARGSTACK = external_class("func_adl.ast.call_stack.argument_stack")
field("_arg_stack", RefOf(ARGSTACK))
field("_prefix", Str)

# ---------------------------------------------------------------- plug-in ast nodes
field("cpp_name", Str)
field("include_files", TList(Str))
field("cpp_return_type", PyU)   # FunctionAST.cpp_return_type: a terminal object (function table) or a type name (ad-hoc nodes)
field("fields", TList(Ref))

# ---------------------------------------------------------------- math-function table (common/cpp_functions.py)
CPPFunction = record(P + "cpp_functions.cpp_function",
                     TRec("cpp_function", [("cpp_name", Str), ("include_files", TList(Str)), ("cpp_return_type", RefOf(T))]))
glob(P + "cpp_functions.functions_to_replace", TDict(Str, CPPFunction))

# ---------------------------------------------------------------- C++ source emitter (common/executor.py)
field("_lines_of_query_code", TList(Str))
field("_indent_level", Int)
EMITTER = RefOf(P + "executor._cpp_source_emitter")

# ---------------------------------------------------------------- metadata (common/meta_data.py)
CPPCodeSpecification = record(P + "cpp_ast.CPPCodeSpecification",
                              TRec("CPPCodeSpecification", [("name", Str), ("include_files", TList(Str)), ("arguments", TList(Str)), ("code", TList(Str)),
                                                            ("result", Str), ("cpp_return_type", CPPParsedTypeInfo), ("cpp_return_is_collection", Bool),
                                                            ("method_object", TOpt(Str)), ("instance_object", TOpt(Str))]))
EventCollectionSpecification = record(P + "event_collections.EventCollectionSpecification",
                                      TRec("EventCollectionSpecification", [("backend_name", Str), ("name", Str), ("include_files", TList(Str)),
                                                                            ("container_type", RefOf(T)), ("libraries", TList(Str))]))
DockerImageSpecification = record(P + "local_dataset.DockerImageSpecification", TRec("DockerImageSpecification", [("image", Str)]))
# a metadata-derived specification is an instance of one of these dataclasses
Spec = TUnionRec("Spec", {P + "meta_data.InjectCodeBlock": InjectCodeBlock, P + "meta_data.JobScriptSpecification": JobScriptSpecification,
                          P + "cpp_ast.CPPCodeSpecification": CPPCodeSpecification,
                          P + "event_collections.EventCollectionSpecification": EventCollectionSpecification,
                          P + "local_dataset.DockerImageSpecification": DockerImageSpecification})
# one metadata dictionary as func_adl delivers it: string keys from the documented vocabulary (anything else = "other key")
MD = TKDict("MD", dict(
    metadata_type=Str,
    type_string=Str, method_name=Str, return_type=Str, tree_type=Str, return_type_element=Str, return_type_collection=Str, deref_count=PyU,
    name=Str, body_includes=TList(Str), header_includes=TList(Str), private_members=TList(Str), instance_initialization=TList(Str),
    ctor_lines=TList(Str), initialize_lines=TList(Str), link_libraries=TList(Str),
    script=TList(Str), depends_on=TList(Str),
    include_files=TList(Str), arguments=TList(Str), code=TList(Str), result_name=Str, return_is_collection=Bool,
    method_object=Str, instance_object=Str,
    container_type=Str, element_type=Str, contains_collection=Bool, element_pointer=Bool,
    namespace=Str, values=TList(Str), image=Str))
glob(P + "cpp_types.g_toplevel_ns", TDict(Str, Ref))

# ---------------------------------------------------------------- executor (common/executor.py)
EXEC = P + "executor.executor"
field("_file_names", TList(Str))
field("_runner_name", Str)
field("_template_dir_name", Str)
field("_method_names", TDict(Str, Func))
field("_job_option_blocks", TList(JobScriptSpecification))
field("_inject_blocks", TList(InjectCodeBlock))
field("_extended_md", TDict(Str, Spec))
field("_found_extended_md", TDict(Str, TList(Spec)))
field("_ecc", Ref)
field("_method_names", TDict(Str, Func), cls=P + "cpp_ast.cpp_ast_finder")
TRANSFORMER = pseudo_base("verif.Transformer", [P + "cpp_functions.find_known_functions", P + "cpp_ast.cpp_ast_finder"])

# ---------------------------------------------------------------- CPPCodeValue (common/cpp_ast.py): an ast node carrying C++ to inline
CCV = P + "cpp_ast.CPPCodeValue"
field("link_libraries", TList(Str))
field("initialization_code", TList(Str))
field("running_code", TList(Str))
field("args", TList(Str), cls=CCV)
field("replacement_instance_obj", TOpt(TTup([Str, Str])))
field("result", TOpt(Str))
field("result_rep", Func)
field("fields", TList(TTup([VAL, Str])), cls=CCV)
