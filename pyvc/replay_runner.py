"""Runs under /venv/bin/python with PYTHONPATH=<repo>: calls the REAL function on decoded inputs, prints typed JSON."""
import dataclasses
import importlib
import json
import sys


def build(j):
    t = j["t"]
    if t in ("int", "str", "bool"):
        return j["v"]
    if t == "none":
        return None
    if t == "list":
        return [build(x) for x in j["v"]]
    if t == "dict":
        return {build(k): build(v) for k, v in j["v"]}
    if t == "kdict":
        return {k: build(v) for k, v in j["v"].items()}
    if t == "rec":
        mod, cls = j["cls"].rsplit(".", 1)
        C = getattr(importlib.import_module(mod), cls)
        return C(**{f: build(v) for f, v in j["v"].items()})
    raise ValueError(t)


def typed(v):
    if v is None:
        return {"t": "none"}
    if isinstance(v, bool):
        return {"t": "bool", "v": v}
    if isinstance(v, int):
        return {"t": "int", "v": v}
    if isinstance(v, str):
        return {"t": "str", "v": v}
    if isinstance(v, (list, tuple)):
        return {"t": "list", "v": [typed(x) for x in v]}
    if isinstance(v, dict):
        return {"t": "dict", "v": [[typed(k), typed(x)] for k, x in v.items()]}
    if dataclasses.is_dataclass(v):
        return {"t": "rec", "cls": type(v).__module__ + "." + type(v).__name__,
                "v": {f.name: typed(getattr(v, f.name)) for f in dataclasses.fields(v)}}
    if hasattr(v, "_type") and hasattr(v, "_p_depth"):
        # a C++ type object (cpp_types.terminal and subclasses)
        d = {"type": typed(getattr(v, "_type")), "p_depth": typed(getattr(v, "_p_depth")), "text": typed(str(v))}
        if hasattr(v, "_element_type"):
            d["element"] = typed(getattr(v, "_element_type"))
        return {"t": "rec", "cls": type(v).__module__ + "." + type(v).__name__, "v": d}
    return {"t": "opaque", "v": repr(v)}


def resolve(qn):
    parts = qn.split(".")
    for k in range(len(parts) - 1, 0, -1):
        try:
            m = importlib.import_module(".".join(parts[:k]))
        except ImportError:
            continue
        o = m
        for p in parts[k:]:
            o = getattr(o, p)
        return m, o
    raise ImportError(qn)


def one(req):
    for gq, j in req.get("globals", {}).items():
        mod, name = gq.rsplit(".", 1)
        setattr(importlib.import_module(mod), name, build(j))
    _, fn = resolve(req["qn"])
    args = {k: build(v) for k, v in req["args"].items()}
    out = {}
    try:
        r = fn(**args)
        out = {"outcome": "return", "value": typed(r)}
    except Exception as e:  # noqa
        out = {"outcome": "raise", "exc": type(e).__name__, "mro": [c.__name__ for c in type(e).__mro__], "msg": str(e)[:300]}
    ga = {}
    for gq in req.get("globals", {}):
        mod, name = gq.rsplit(".", 1)
        ga[gq] = typed(getattr(importlib.import_module(mod), name))
    out["globals_after"] = ga
    return out


def main():
    req = json.loads(sys.stdin.read())
    if "cases" in req:
        outs = []
        for c in req["cases"]:
            try:
                outs.append(one(dict(qn=req["qn"], args=c["args"], globals=c.get("globals", {}))))
            except Exception as e:  # noqa
                outs.append({"outcome": "error", "detail": repr(e)})
        if req.get("oracle"):
            import importlib.util
            spec = importlib.util.spec_from_file_location("oracles", req["oracle_file"])
            m = importlib.util.module_from_spec(spec)
            spec.loader.exec_module(m)
            fn = getattr(m, req["oracle"])
            for c, o in zip(req["cases"], outs):
                if o.get("outcome") == "error":
                    continue
                try:
                    ok, detail = fn({k: build(v) for k, v in c["args"].items()}, o)
                except Exception as e:  # noqa
                    ok, detail = None, "oracle crashed: %r" % (e,)
                o["oracle_ok"] = ok
                o["oracle_detail"] = detail
        print(json.dumps(outs))
    else:
        print(json.dumps(one(req)))


main()
