"""Executable oracles used ONLY by the bounded concrete search (refutation of failed obligations on the real code) and
the bounded stand-ins.  They are written from the property statements, not from the code, and are never part of a proof.
Run under /venv/bin/python."""


def _typed_to_py(j):
    t = j["t"]
    if t in ("int", "str", "bool"):
        return j["v"]
    if t == "none":
        return None
    if t == "list":
        return [_typed_to_py(x) for x in j["v"]]
    if t == "dict":
        return {_typed_to_py(k): _typed_to_py(v) for k, v in j["v"]}
    if t == "rec":
        return {f: _typed_to_py(v) for f, v in j["v"].items()}
    return j.get("v")


def c15_generate_script_block(args, out):
    "C15 statement: each distinct block exactly once, contiguous, in order, after all its dependencies; errors exactly when ..."
    blocks = args["blocks"]
    names, script, deps = [], {}, {}
    conflict = False
    for b in blocks:
        if b.name not in script:
            names.append(b.name)
            script[b.name] = list(b.script)
            deps[b.name] = []
        elif list(b.script) != script[b.name]:
            conflict = True
        deps[b.name].extend(b.depends_on)
    missing = any(d not in script for n in names for d in deps[n])
    # cycle <=> no topological order
    cycle = False
    if not conflict and not missing:
        done, left = set(), list(names)
        while left:
            ready = [n for n in left if all(d in done for d in deps[n])]
            if not ready:
                cycle = True
                break
            for n in ready:
                done.add(n)
                left.remove(n)
    if out["outcome"] == "raise":
        if out["exc"] != "ValueError":
            return False, "raised %s, the statement only allows ValueError" % out["exc"]
        if not (conflict or missing or cycle):
            return False, "raised ValueError although there is no conflicting duplicate, no missing dependency and no cycle"
        return True, ""
    if conflict:
        return False, "returned normally although a repeated name has a different script"
    if missing:
        return False, "returned normally although a dependency names a block that was not sent"
    if cycle:
        return False, "returned normally although the dependencies are cyclic"
    res = _typed_to_py(out["value"])

    # is `res` the concatenation of every distinct block's script exactly once, in an order that respects deps?
    def parse(p, placed, remaining):
        if not remaining:
            return p == len(res)
        for n in list(remaining):
            if all(d in placed for d in deps[n]):
                s = script[n]
                if res[p:p + len(s)] == s:
                    if parse(p + len(s), placed | {n}, [m for m in remaining if m != n]):
                        return True
        return False

    if not parse(0, frozenset(), names):
        return False, "result %r is not a dependency-ordered, exactly-once, contiguous layout of the blocks' scripts" % (res,)
    return True, ""


def process_metadata(args, out):
    "C14/C15/C11 statements: every job-script block and C++ function spec is delivered, in order; inject blocks once each in first-occurrence order"
    mds = args["md_list"]
    if out["outcome"] != "return":
        return True, ""
    res = _typed_to_py(out["value"])
    cls = [x["cls"].split(".")[-1] for x in out["value"]["v"]]
    jobs = [r for r, c in zip(res, cls) if c == "JobScriptSpecification"]
    want_jobs = [dict(name=m["name"], script=list(m["script"]), depends_on=list(m.get("depends_on", []))) for m in mds if m.get("metadata_type") == "add_job_script"]
    if jobs != want_jobs:
        return False, "job-script blocks delivered %r, metadata declared %r (a block was dropped, reordered or altered)" % (jobs, want_jobs)
    fns = [r["name"] for r, c in zip(res, cls) if c == "CPPCodeSpecification"]
    want_fns = [m["name"] for m in mds if m.get("metadata_type") == "add_cpp_function"]
    if fns != want_fns:
        return False, "C++ function specifications delivered %r, declared %r" % (fns, want_fns)
    inj = [r for r, c in zip(res, cls) if c == "InjectCodeBlock"]
    want_inj = []
    fields = ["body_includes", "header_includes", "private_members", "instance_initialization", "ctor_lines", "initialize_lines", "link_libraries"]
    for m in mds:
        if m.get("metadata_type") == "inject_code" and len(m) > 1:
            b = dict(name=m["name"], **{f: list(m.get(f, [])) for f in fields})
            if b not in want_inj:
                want_inj.append(b)
    if inj != want_inj:
        return False, "inject_code blocks delivered %r, expected %r (each distinct block once, first-occurrence order)" % (inj, want_inj)
    # C06: metadata-declared collections carry their declaration (backend, name, headers, container and element type, pointer-ness)
    backends = {"add_atlas_event_collection_info": "atlas", "add_cms_aod_event_collection_info": "cms_aod", "add_cms_miniaod_event_collection_info": "cms_miniaod"}
    colls = [r for r, c in zip(res, cls) if c == "EventCollectionSpecification"]
    decl = [m for m in mds if m.get("metadata_type") in backends]
    if len(colls) != len(decl):
        return False, "%d collection specifications delivered for %d collection declarations" % (len(colls), len(decl))
    for sp, m in zip(colls, decl):
        be = backends[m["metadata_type"]]
        ct = sp["container_type"]
        if sp["backend_name"] != be or sp["name"] != m["name"] or sp["include_files"] != list(m["include_files"]) or ct["type"] != m["container_type"]:
            return False, "collection declaration %r became %r" % (m, sp)
        if "element_type" in m:
            el = ct.get("element")
            want_ptr = 1 if (be == "atlas" or m.get("element_pointer")) else 0
            if el is None or el["type"] != m["element_type"] or el["p_depth"] != want_ptr:
                return False, "collection declaration %r: elements delivered as %r, declared %s with pointer depth %d" % (m, el, m["element_type"], want_ptr)
        if sp["libraries"] != (list(m.get("link_libraries", [])) if be == "atlas" else []):
            return False, "collection declaration %r: libraries %r" % (m, sp["libraries"])
    return True, ""
