"""Statement execution, loops with invariants, exceptions, with-blocks, ghost code."""
from __future__ import annotations
import ast
import z3
from .core import *
from .ops import *
from .sym import *
from .sym_builtin import VRange, VZip, VEnum, VValues, VItems, VEmptySet


def loops_of(fn_node):
    "For/While nodes of a function in source order, not descending into nested defs"
    out = []

    def walk(n):
        for c in ast.iter_child_nodes(n):
            if isinstance(c, (ast.FunctionDef, ast.AsyncFunctionDef, ast.Lambda, ast.ClassDef)):
                continue
            if isinstance(c, (ast.For, ast.While)):
                out.append(c)
            walk(c)
    walk(fn_node)
    out.sort(key=lambda n: (n.lineno, n.col_offset))
    return out


def assigned_names(stmts):
    names = set()
    for st in stmts:
        for n in ast.walk(st):
            if isinstance(n, (ast.FunctionDef, ast.Lambda, ast.ClassDef)) and n is not st:
                continue
            if isinstance(n, ast.Name) and isinstance(n.ctx, (ast.Store, ast.Del)):
                names.add(n.id)
            if isinstance(n, ast.AugAssign) and isinstance(n.target, ast.Name):
                names.add(n.target.id)
            if isinstance(n, ast.Call) and isinstance(n.func, ast.Attribute) and n.func.attr in \
                    ("append", "extend", "add", "update", "clear", "pop", "insert", "remove", "setdefault"):
                b = n.func.value
                while isinstance(b, ast.Subscript):
                    b = b.value
                if isinstance(b, ast.Name):  # a mutator on an attribute chain (self.f.append) changes the heap, not the local
                    names.add(b.id)
            if isinstance(n, (ast.Assign, ast.AugAssign)):
                tg = n.targets if isinstance(n, ast.Assign) else [n.target]
                for t in tg:
                    b = t
                    while isinstance(b, ast.Subscript):
                        b = b.value
                    if isinstance(b, ast.Name):
                        names.add(b.id)
    return names


class StmtMixin:
    # ------------------------------------------------------------ blocks
    def exec_block(self, stmts, st, cx):
        """-> [(state, outcome)], outcome in ('normal',) ('return', v) ('break',) ('continue',);
        raising paths are appended to cx.acc"""
        live = [st]
        done = []
        for s in stmts:
            if isinstance(s, ast.Expr) and isinstance(s.value, ast.Constant) and isinstance(s.value.value, str):
                continue  # docstring
            nxt = []
            live = self.run_ghost_before(s, live, cx)
            for cur in live:
                for s2, oc in self.exec_stmt(s, cur, cx):
                    if oc[0] == "normal":
                        nxt.extend(self.run_ghost(s, s2, cx))
                    else:
                        done.append((s2, oc))
            live = nxt
            if not live:
                break
        return done + [(s, ("normal",)) for s in live]

    def run_ghost(self, stmt, st, cx):
        c = cx.contract or getattr(cx, "ghost_contract", None)
        if c is None or not c.ghost or cx.spec:
            return [st]
        txt = None
        outs = [st]
        for anchor, code in c.ghost.items():
            if not anchor.startswith("after:"):
                continue
            if txt is None:
                txt = ast.unparse(stmt)
            if txt.startswith(anchor[6:]):
                outs = self.exec_ghost(code, outs, cx)
        return outs

    def run_ghost_before(self, stmt, states, cx):
        c = cx.contract
        if c is None or not c.ghost or cx.spec or cx.fn_node is None:
            return states
        if isinstance(stmt, (ast.For, ast.While)):
            ls = loops_of(cx.fn_node)
            key = "before:for#%d" % (ls.index(stmt) + 1) if stmt in ls else None
            if key in c.ghost:
                return self.exec_ghost(c.ghost[key], states, cx)
        if isinstance(stmt, ast.Raise):
            rs = sorted([n for n in ast.walk(cx.fn_node) if isinstance(n, ast.Raise)], key=lambda n: (n.lineno, n.col_offset))
            key = "before:raise#%d" % (rs.index(stmt) + 1) if stmt in rs else None
            if key in c.ghost:
                return self.exec_ghost(c.ghost[key], states, cx)
        return states

    def exec_ghost(self, code, states, cx):
        body = ast.parse("\n".join(code) if isinstance(code, list) else code).body
        outs = []
        for st in states:
            gc_ = cx.contract or getattr(cx, "ghost_contract", None)
            gcx = cx.child(mod=gc_.module, spec=True, acc=[], contract=None)
            for s2, oc in self.exec_block(body, st, gcx):
                if oc[0] != "normal":
                    raise Unsupported("ghost code must fall through")
                outs.append(s2)
        return outs

    def exec_stmt(self, s, st, cx):
        m = getattr(self, "ex_" + type(s).__name__, None)
        if m is None:
            raise Unsupported("statement %s at line %d" % (type(s).__name__, s.lineno))
        return m(s, st, cx)

    def ex_Pass(self, s, st, cx):
        return [(st, ("normal",))]

    def ex_Expr(self, s, st, cx):
        opq = getattr(cx.contract, "opaque_locals", None) or []
        try:
            return [(s2, ("normal",)) for s2, _ in self.ev(s.value, st, cx)]
        except Unsupported:
            # x.method(<unmodelled>) on a local declared opaque: the local becomes an unmodelled value
            e = s.value
            if isinstance(e, ast.Call) and isinstance(e.func, ast.Attribute) and isinstance(e.func.value, ast.Name) and e.func.value.id in opq:
                st = st.copy()
                al = st.env.get("__alias__" + e.func.value.id)
                if al is not None:
                    # the local is an alias of obj.field: the unmodelled mutation also hits the object (arbitrary new value)
                    obj, fld = al.what
                    so = self.field_sort(fld, obj.cls)
                    nv = fresh(so, "aliased_" + fld)
                    self.assume_wf(st, nv, nullable=True)
                    self.write_field(st, obj, fld, nv)
                st.env[e.func.value.id] = VOpaque("unmodelled value of " + e.func.value.id)
                return [(st, ("normal",))]
            raise

    def ex_Return(self, s, st, cx):
        if s.value is None:
            return [(st, ("return", VNone()))]
        return [(s2, ("return", v)) for s2, v in self.ev(s.value, st, cx)]

    def ex_Break(self, s, st, cx):
        return [(st, ("break",))]

    def ex_Continue(self, s, st, cx):
        return [(st, ("continue",))]

    def ex_Global(self, s, st, cx):
        st = st.copy()
        g = set(st.env.get("__globals__", VOpaque(frozenset())).what)
        st.env["__globals__"] = VOpaque(frozenset(g | set(s.names)))
        return [(st, ("normal",))]

    def ex_Nonlocal(self, s, st, cx):
        raise Unsupported("nonlocal")

    def ex_Import(self, s, st, cx):
        st = st.copy()
        for a in s.names:
            if a.asname:
                st.env[a.asname] = VModule(a.name)
            else:
                st.env[a.name.split(".")[0]] = VModule(a.name.split(".")[0])
        return [(st, ("normal",))]

    def ex_ImportFrom(self, s, st, cx):
        st = st.copy()
        mod = s.module or ""
        if s.level:
            base = cx.mod.qn.split(".")
            base = base[: len(base) - s.level]
            mod = ".".join(base + ([mod] if mod else []))
        for a in s.names:
            st.env[a.asname or a.name] = self.lookup_qualified(mod, a.name, st, cx)
        return [(st, ("normal",))]

    def ex_FunctionDef(self, s, st, cx):
        if getattr(cx, "module_level", False):
            return [(st, ("normal",))]
        st = st.copy()
        f = VFunc("closure", s, env=None, self_val=cx, qn=(cx.fn or "") + "." + s.name)
        st.env[s.name] = f
        f.env = [st.env] + cx.closure  # by-reference capture of the defining frame as it is now (and recursion)
        return [(st, ("normal",))]

    def ex_ClassDef(self, s, st, cx):
        if getattr(cx, "module_level", False):
            return [(st, ("normal",))]  # definitions are taken from the module index
        raise Unsupported("nested class %s" % s.name)

    def ex_Assert(self, s, st, cx):
        outs = []
        for s2, c in self.ev(s.test, st, cx):
            t, f = self.fork(s2, truth(c))
            if f is not None:
                self.raise_(cx, f, "builtins.AssertionError")
            if t is not None:
                outs.append((t, ("normal",)))
        return outs

    def ex_Delete(self, s, st, cx):
        outs = [st]
        for tg in s.targets:
            nxt = []
            for cur in outs:
                if isinstance(tg, ast.Subscript):
                    for s2, b in self.ev(tg.value, cur, cx):
                        for s3, k in self.ev(tg.slice, s2, cx):
                            if isinstance(b, VRec) and isinstance(b.sort, TKDict):
                                kc = k.conc()
                                if kc is None or kc not in b.sort.keys:
                                    raise Unsupported("del of a key outside the key universe")
                                ok, bad = self.fork(s3, b.sort.get(b.t, "p_" + kc))
                                if bad is not None:
                                    self.raise_(cx, bad, "builtins.KeyError")
                                if ok is not None:
                                    ts = [z3.BoolVal(False) if f == "p_" + kc else b.sort.get(b.t, f) for f, _ in b.sort.fields]
                                    nxt.extend(self.assign_target(tg.value, VRec(b.sort.mk(*ts), b.sort), ok, cx, mutation=True))
                                continue
                            if isinstance(b, VConcDict):
                                kc = k.conc()
                                items = [(a, v) for a, v in b.items if a.conc() != kc]
                                if len(items) == len(b.items):
                                    self.raise_(cx, s3, "builtins.KeyError")
                                    continue
                                nxt.extend(self.assign_target(tg.value, VConcDict(items), s3, cx, mutation=True))
                            else:
                                raise Unsupported("del on %r" % (b,))
                elif isinstance(tg, ast.Name):
                    c2 = cur.copy()
                    c2.env.pop(tg.id, None)
                    nxt.append(c2)
                else:
                    raise Unsupported("del target")
            outs = nxt
        return [(s2, ("normal",)) for s2 in outs]

    # ------------------------------------------------------------ assignment
    def ex_Assign(self, s, st, cx):
        if getattr(cx, "module_level", False) and len(s.targets) == 1 and isinstance(s.targets[0], ast.Name) \
                and (cx.mod.qn + "." + s.targets[0].id) in self.reg.records:
            return [(st, ("normal",))]  # class-valued module constant (namedtuple): modelled by the declared record
        outs = []
        opq = getattr(cx.contract, "opaque_locals", None) or []
        tname = s.targets[0].id if len(s.targets) == 1 and isinstance(s.targets[0], ast.Name) else None
        try:
            vals = self.ev(s.value, st, cx)
        except Unsupported:
            if tname in opq:
                vals = [(st, VOpaque("unmodelled value of " + tname))]
            else:
                raise
        for s2, v in vals:
            states = [s2]
            for tg in s.targets:
                nxt = []
                for cur in states:
                    nxt.extend(self.assign_target(tg, v, cur, cx))
                states = nxt
            if tname is not None:
                for x in states:
                    x.env.pop("__alias__" + tname, None)
                    if isinstance(s.value, ast.Attribute) and isinstance(v, (VList, VDict)):
                        for _, b in self.ev(s.value.value, x.copy(), cx.child(spec=True, acc=[])):
                            if isinstance(b, VRef) and self.field_sort(s.value.attr, b.cls) is not None:
                                x.env["__alias__" + tname] = VOpaque((b, s.value.attr))
            outs.extend((x, ("normal",)) for x in states)
        return outs

    def ex_AnnAssign(self, s, st, cx):
        if s.value is None:
            return [(st, ("normal",))]
        outs = []
        for s2, v in self.ev(s.value, st, cx):
            outs.extend((x, ("normal",)) for x in self.assign_target(s.target, v, s2, cx))
        return outs

    def ex_AugAssign(self, s, st, cx):
        outs = []
        load = ast.parse(ast.unparse(s.target), mode="eval").body
        ast.copy_location(load, s.target)
        for s2, a in self.ev(load, st, cx):
            for s3, b in self.ev(s.value, s2, cx):
                if isinstance(b, VIter):
                    b = VTuple(b.items, True)
                v = self.binop(s.op, a, b, s3, cx)
                outs.extend((x, ("normal",)) for x in self.assign_target(s.target, v, s3, cx))
        return outs

    def assign_target(self, tg, v, st, cx, mutation=False):
        """-> [states].  mutation=True: the value is the new content of the object the target expression denotes (write-back of an
        in-place update such as d[k] = v or l.append(x)): a name that is not a local then denotes the module global"""
        if isinstance(tg, ast.Name):
            st = st.copy()
            gl = st.env.get("__globals__")
            if mutation and tg.id not in st.env and not any(tg.id in e for e in cx.closure) and (cx.mod.qn + "." + tg.id) in self.reg.globals:
                qn = cx.mod.qn + "." + tg.id
                st.glob[qn] = coerce(v, self.reg.globals[qn])
                return [st]
            if getattr(cx, "module_level", False) and (cx.mod.qn + "." + tg.id) in self.reg.records:
                return [st]  # class-valued module constant (e.g. a namedtuple): modelled by the declared record
            if (gl is not None and tg.id in gl.what) or (getattr(cx, "module_level", False) and (cx.mod.qn + "." + tg.id) in self.reg.globals):
                qn = cx.mod.qn + "." + tg.id
                if qn not in self.reg.globals:
                    raise Unsupported("assignment to undeclared module global %s" % qn)
                st.glob[qn] = coerce(v, self.reg.globals[qn])
            else:
                if isinstance(v, VEmptySet):
                    hint = self.sort_hint(cx, tg.id)
                    if hint is None:
                        raise Unsupported("set() needs a sort hint for %s" % tg.id)
                    v = empty_set(hint)
                hint = self.sort_hint(cx, tg.id)
                if hint is not None and not isinstance(v, VEmptySet):
                    v = coerce(v, hint)
                st.env[tg.id] = v
            return [st]
        if isinstance(tg, (ast.Tuple, ast.List)):
            items = self.iter_items(v, st, cx)
            if items is None or len(items) != len(tg.elts):
                raise Unsupported("unpacking of %r" % (v,))
            states = [st]
            for t, x in zip(tg.elts, items):
                nxt = []
                for cur in states:
                    nxt.extend(self.assign_target(t, x, cur, cx))
                states = nxt
            return states
        if isinstance(tg, ast.Attribute):
            outs = []
            for s2, b in self.ev(tg.value, st, cx):
                if isinstance(b, VRef):
                    s2 = s2.copy()
                    # property setters are not used in this code base
                    self.write_field(s2, b, tg.attr, v)
                    outs.append(s2)
                elif isinstance(b, VRec):
                    rec = b.sort
                    if rec.fidx(tg.attr) is None:
                        raise Unsupported("record %s has no field %s" % (rec, tg.attr))
                    ts = [term_of(v, s) if f == tg.attr else rec.get(b.t, f) for f, s in rec.fields]
                    outs.extend(self.assign_target(tg.value, VRec(rec.mk(*ts), rec), s2, cx, mutation=True))
                elif isinstance(b, VModule):
                    qn = b.qn + "." + tg.attr
                    if qn not in self.reg.globals:
                        raise Unsupported("assignment to undeclared module global %s" % qn)
                    s2 = s2.copy()
                    s2.glob[qn] = coerce(v, self.reg.globals[qn])
                    outs.append(s2)
                else:
                    raise Unsupported("attribute store on %r" % (b,))
            return outs
        if isinstance(tg, ast.Subscript):
            outs = []
            for s2, b in self.ev(tg.value, st, cx):
                for s3, k in self.ev(tg.slice, s2, cx):
                    if isinstance(b, VDict):
                        nb = dict_set(b, k, v)
                    elif isinstance(b, VConcDict):
                        nb = self.concdict_update(b, VConcDict([(k, v)]))
                    elif isinstance(b, VList):
                        i = coerce(k, Int).t
                        i = z3.If(i < 0, i + b.sort.len(b.t), i)
                        nb = VList(b.sort.mk(b.sort.len(b.t), z3.Store(b.sort.arr(b.t), i, term_of(v, b.sort.elem))), b.sort)
                    else:
                        raise Unsupported("subscript store on %r" % (b,))
                    outs.extend(self.assign_target(tg.value, nb, s3, cx, mutation=True))
            return outs
        if isinstance(tg, ast.Call) or isinstance(tg, ast.Constant):
            return [st]
        raise Unsupported("assignment target %s" % type(tg).__name__)

    def sort_hint(self, cx, name):
        c = cx.contract
        if c is None:
            return None
        h = getattr(c, "local_sorts", None)
        if h and name in h:
            return h[name]
        return None

    # ------------------------------------------------------------ control flow
    def ex_If(self, s, st, cx):
        outs = []
        for s2, c in self.ev(s.test, st, cx):
            t, f = self.fork(s2, truth(c))
            if t is not None:
                outs.extend(self.exec_block(s.body, t, cx))
            if f is not None:
                outs.extend(self.exec_block(s.orelse, f, cx) if s.orelse else [(f, ("normal",))])
        return outs

    def ex_Raise(self, s, st, cx):
        if s.exc is None:
            cur = st.env.get("__cur_exc__")
            if cur is None:
                raise Unsupported("bare raise outside handler")
            self.raise_(cx, st, cur.qn, cur)
            return []
        e = s.exc
        # the message is not evaluated (exception texts are unmodelled); the class is
        if isinstance(e, ast.Call):
            fe = e.func
        else:
            fe = e
        for s2, f in self.ev(fe, st, cx):
            if isinstance(f, VType) and f.qn is not None:
                self.raise_(cx, s2, f.qn, VExc(f.qn))
            elif isinstance(f, VExc):
                self.raise_(cx, s2, f.qn, f)
            else:
                raise Unsupported("raise of %r" % (f,))
        return []

    def ex_Try(self, s, st, cx):
        acc = []
        body_cx = cx.child(acc=acc)
        res = self.exec_block(s.body, st, body_cx)
        outs = []
        # else clause
        after = []
        for s2, oc in res:
            if oc[0] == "normal" and s.orelse:
                after.extend(self.exec_block(s.orelse, s2, cx.child(acc=acc)))
            else:
                after.append((s2, oc))
        pending_raises = []
        for r in acc:
            handled = False
            for h in s.handlers:
                if h.type is None:
                    match = True
                else:
                    tv = self.ev1(h.type, r.st, cx.child(spec=True, acc=[]))
                    tqs = [t.qn for t in (tv.items if isinstance(tv, VTuple) else [tv])]
                    match = any(self.repo.is_subclass(r.exc, tq) for tq in tqs)
                if match:
                    hs = r.st.copy()
                    exv = r.info if r.info is not None else VExc(r.exc)
                    if h.name:
                        hs.env[h.name] = exv
                    prev = hs.env.get("__cur_exc__")
                    hs.env["__cur_exc__"] = exv if isinstance(exv, VExc) else VExc(r.exc)
                    hacc = []
                    for s3, oc in self.exec_block(h.body, hs, cx.child(acc=hacc)):
                        if prev is None:
                            s3.env.pop("__cur_exc__", None)
                        else:
                            s3.env["__cur_exc__"] = prev
                        after.append((s3, oc))
                    pending_raises.extend(hacc)
                    handled = True
                    break
            if not handled:
                pending_raises.append(r)
        if s.finalbody:
            final = []
            for s2, oc in after:
                for s3, oc2 in self.exec_block(s.finalbody, s2, cx):
                    final.append((s3, oc if oc2[0] == "normal" else oc2))
            for r in pending_raises:
                facc = []
                for s3, oc2 in self.exec_block(s.finalbody, r.st, cx.child(acc=facc)):
                    if oc2[0] == "normal":
                        cx.acc.append(Raised(r.exc, s3, r.info))
                    else:
                        final.append((s3, oc2))
                cx.acc.extend(facc)
            return final
        cx.acc.extend(pending_raises)
        return after

    def ex_With(self, s, st, cx):
        if len(s.items) != 1:
            inner = ast.With(items=s.items[1:], body=s.body)
            ast.copy_location(inner, s)
            s = ast.With(items=s.items[:1], body=[inner])
            ast.copy_location(s, inner)
        item = s.items[0]
        outs = []
        for s2, cm in self.ev(item.context_expr, st, cx):
            for s3, ent in self.cm_call(cm, "__enter__", s2, cx):
                states = [s3]
                if item.optional_vars is not None:
                    states = self.assign_target(item.optional_vars, ent, s3, cx)
                for s4 in states:
                    acc = []
                    res = self.exec_block(s.body, s4, cx.child(acc=acc))
                    for s5, oc in res:
                        for s6, _ in self.cm_call(cm, "__exit__", s5, cx):
                            outs.append((s6, oc))
                    for r in acc:
                        for s6, _ in self.cm_call(cm, "__exit__", r.st, cx):
                            cx.acc.append(Raised(r.exc, s6, r.info))
        return outs

    def cm_call(self, cm, name, st, cx):
        if isinstance(cm, VRef):
            outs = []
            for s2, m in self.getattr_ref(cm, name, st, cx):
                args = [] if name == "__enter__" else [VNone(), VNone(), VNone()]
                outs.extend(self.call_function(m, args, {}, s2, cx))
            return outs
        raise Unsupported("context manager %r" % (cm,))

    # ------------------------------------------------------------ loops
    def loop_contract(self, node, cx):
        key = getattr(node, "_pyvc_key", None)
        if key is not None:
            return (cx.contract.loops.get(key) if cx.contract else None), key
        if cx.fn_node is None:
            return None, None
        ls = loops_of(cx.fn_node)
        k = ls.index(node) + 1 if node in ls else None
        c = cx.contract
        if c is None or k is None:
            return None, k
        return c.loops.get(k), k

    def ex_For(self, s, st, cx):
        outs = []
        for s2, itv in self.ev(s.iter, st, cx):
            items = self.iter_items(itv, s2, cx)
            if items is not None:
                outs.extend(self.unrolled_for(s, items, s2, cx))
            else:
                outs.extend(self.symbolic_for(s, itv, s2, cx))
        return outs

    def unrolled_for(self, s, items, st, cx):
        live = [st]
        done = []
        broke = []
        from .sym_builtin import VGuard
        for it in items:
            nxt = []
            if isinstance(it, VGuard):
                # element present only under it.cond.  When the body leaves the state unchanged on its normal exits (a pure
                # check that may raise), the two cases are joined again instead of doubling the number of paths.
                for cur in live:
                    t, f = self.fork(cur, it.cond)
                    if t is None:
                        nxt.append(f)
                        continue
                    normals = []
                    for b in self.assign_target(s.target, it.val, t, cx):
                        for s2, oc in self.exec_block(s.body, b, cx):
                            if oc[0] in ("normal", "continue"):
                                normals.append((b, s2))
                            elif oc[0] == "break":
                                broke.append(s2)
                            else:
                                done.append((s2, oc))
                    tnames = assigned_names([ast.Assign(targets=[s.target], value=ast.Constant(0), lineno=0)])

                    def same(b, s2):
                        if s2.heap != b.heap or s2.glob != b.glob or not z3.eq(s2.top, b.top):
                            return False
                        for k2, v2 in s2.env.items():
                            if k2 in tnames:
                                continue
                            if k2 not in b.env or b.env[k2] is not v2:
                                return False
                        return True
                    if f is not None and normals and all(same(b, s2) for b, s2 in normals):
                        merged = cur.copy()
                        disj = []
                        for b, s2 in normals:
                            inc = s2.pc[len(t.pc):]
                            disj.append(z3.And(*inc) if inc else z3.BoolVal(True))
                        merged.pc.append(z3.Implies(it.cond, z3.Or(*disj)))
                        nxt.append(merged)
                    else:
                        nxt.extend(s2 for _, s2 in normals)
                        if f is not None:
                            nxt.append(f)
                live = nxt
                continue
            for cur in live:
                for b in self.assign_target(s.target, it, cur, cx):
                    for s2, oc in self.exec_block(s.body, b, cx):
                        if oc[0] in ("normal", "continue"):
                            nxt.append(s2)
                        elif oc[0] == "break":
                            broke.append(s2)
                        else:
                            done.append((s2, oc))
            live = nxt
        for cur in live:
            if s.orelse:
                done.extend(self.exec_block(s.orelse, cur, cx))
            else:
                done.append((cur, ("normal",)))
        done.extend((b, ("normal",)) for b in broke)
        return done

    def iter_view(self, itv, st):
        "-> (n term, elem(i) -> Val)"
        if isinstance(itv, VList):
            return itv.sort.len(itv.t), (lambda i: list_get(itv, i))
        if isinstance(itv, VRange):
            return z3.If(itv.hi > itv.lo, itv.hi - itv.lo, 0), (lambda i: VInt(itv.lo + i))
        if isinstance(itv, VDict):
            k = dict_keys_list(itv)
            return k.sort.len(k.t), (lambda i: list_get(k, i))
        if isinstance(itv, VValues):
            d = itv.d
            k = dict_keys_list(d)
            return k.sort.len(k.t), (lambda i: dict_get(d, list_get(k, i)))
        if isinstance(itv, VItems):
            d = itv.d
            k = dict_keys_list(d)
            return k.sort.len(k.t), (lambda i: VTuple([list_get(k, i), dict_get(d, list_get(k, i))]))
        if isinstance(itv, VEnum):
            n, el = self.iter_view(itv.seq, st)
            return n, (lambda i: VTuple([VInt(i), el(i)]))
        if isinstance(itv, VZip):
            views = [self.iter_view(lift_list(p) if isinstance(p, VTuple) else p, st) for p in itv.parts]
            n = views[0][0]
            for v in views[1:]:
                n = z3.If(v[0] < n, v[0], n)
            return n, (lambda i: VTuple([v[1](i) for v in views]))
        raise Unsupported("iteration over %r" % (itv,))

    def havoc_locals(self, st, names, cx, lc):
        hints = (lc or {}).get("sorts", {})
        for n in sorted(names):
            if n in hints:
                nv = fresh(hints[n], n)
                self.assume_wf(st, nv, nullable=True)
                st.env[n] = nv
                continue
            if n not in st.env:
                continue
            v = st.env[n]
            if isinstance(v, VTuple):
                try:
                    v = lift_list(v) if v.is_list or True else v
                except Unsupported:
                    raise Unsupported("loop-modified list %s needs a sort hint (sorts={...}) in the loop contract" % n)
            if isinstance(v, VConcDict):
                raise Unsupported("loop-modified dict %s needs a sort hint in the loop contract" % n)
            if isinstance(v, VEmptySet):
                raise Unsupported("loop-modified set %s needs a sort hint" % n)
            if isinstance(v, (VFunc, VType, VModule)):
                continue
            if isinstance(v, VNone):
                raise Unsupported("loop-modified variable %s is None at loop entry: needs a sort hint" % n)
            if isinstance(v, VOpaque):
                continue
            nv = fresh(v.sort, n)
            if isinstance(nv, VRef):
                nv = VRef(nv.t, v.cls)
            self.assume_wf(st, nv, nullable=True)
            st.env[n] = nv

    def havoc_heap_fields(self, st, fields):
        if fields:
            nt = z3.FreshConst(z3.IntSort(), "top")
            st.pc.append(nt >= st.top)
            st.top = nt
        for m in fields:
            if m.startswith("global:"):
                qn = m[7:]
                v = fresh(self.reg.globals[qn], "g")
                self.assume_wf(st, v)
                st.glob[qn] = v
                continue
            if m == "alloc":
                continue
            name, cls = (m.split("@") + [None])[:2]
            so = self.field_sort(name, cls)
            k = self.heap_key(name, cls)
            a = z3.FreshConst(z3.ArraySort(z3.IntSort(), so.z3()), "H_" + k)
            self.arr_bound[a.get_id()] = st.top
            st.heap[k] = a

    def check_frame(self, head, st, declared, what):
        """heap fields changed by the loop body must be declared in the loop contract, except for writes to objects that the
        body itself allocated (their cells are unconstrained in the loop-head state anyway)"""
        for k, a in st.heap.items():
            base_arr = head.heap.get(k, self.init_heap.get(k))
            if base_arr is not None and z3.eq(base_arr, a):
                continue
            base = k.split("@")[0]
            if any(d.split("@")[0] == base for d in declared):
                continue
            t = a
            ok = True
            while z3.is_store(t) and not (base_arr is not None and z3.eq(t, base_arr)):
                idx = t.arg(1)
                if self.feasible(st, idx < head.top):
                    ok = False
                    break
                t = t.arg(0)
            if ok and base_arr is not None and z3.eq(t, base_arr):
                continue
            if ok and base_arr is None and z3.is_const(t):
                continue
            # the loop body changes a field its contract declares untouched: a failed (frame) obligation of the loop contract
            self.oblige(st, z3.BoolVal(False), "loop.frame", "unmodified[%s] in %s" % (k, what.split(" of ")[0]))
        for k, v in st.glob.items():
            if k not in head.glob or head.glob[k] is not v:
                if ("global:" + k) not in declared:
                    raise Unsupported("%s modifies global %s which its loop contract does not declare" % (what, k))

    def inv_check(self, lc, k, st, cx, phase, extra_env):
        env_saved = st.env
        needs = lc.get("needs", {})
        for lab, ex in _labelled(lc.get("invariant", [])):
            s2 = st.copy()
            s2.env = dict(env_saved)
            s2.env.update(extra_env)
            g = self.eval_spec(ex, s2, s2.env, cx.pre_fn if hasattr(cx, "pre_fn") else cx.pre, cx.contract.module)
            st.pc.extend(s2.pc[len(st.pc):])
            if phase in ("preserved", "entry") and lab in needs:
                # opaque / reveal: only the listed invariant conjuncts are given to the solver for this obligation
                keep = set(needs[lab])
                sub = st.copy()
                sub.pc = [p for p in st.pc if self.inv_tags.get(p.get_id()) is None or self.inv_tags[p.get_id()] in keep]
                self.oblige(sub, truth(g), "loop%s.%s" % (k, phase), lab)
            else:
                self.oblige(st, truth(g), "loop%s.%s" % (k, phase), lab)

    def inv_assume(self, lc, st, cx, extra_env):
        for lab, ex in _labelled(lc.get("invariant", [])):
            env = dict(st.env)
            env.update(extra_env)
            g = self.eval_spec(ex, st, env, cx.pre_fn if hasattr(cx, "pre_fn") else cx.pre, cx.contract.module)
            t = truth(g)
            self.inv_tags[t.get_id()] = lab
            st.pc.append(t)

    def symbolic_for(self, s, itv, st, cx):
        lc, k = self.loop_contract(s, cx)
        if lc is None:
            raise Unsupported("loop at line %d of %s iterates a symbolic sequence and has no invariant (loop #%s)" % (s.lineno, cx.fn, k))
        if cx.spec:
            raise Unsupported("symbolic loop in spec code")
        n, elem = self.iter_view(itv, st)
        mods = assigned_names(s.body) | assigned_names([ast.Assign(targets=[s.target], value=ast.Constant(0), lineno=0)]) | ghost_names(lc)
        tnames = assigned_names([ast.Assign(targets=[s.target], value=ast.Constant(0), lineno=0)])
        hf = list(lc.get("modifies", []))
        # 1. invariant holds on entry
        self.inv_check(lc, k, st, cx, "entry", {"_i": VInt(0), "_n": VInt(n)})
        # 2. arbitrary iteration
        head = st.copy()
        self.havoc_locals(head, mods - tnames, cx, lc)
        self.havoc_heap_fields(head, hf)
        i = z3.FreshConst(z3.IntSort(), "_i")
        head.pc.append(z3.And(i >= 0, i <= n))
        self.inv_assume(lc, head, cx, {"_i": VInt(i), "_n": VInt(n)})
        outs = []
        prev_i = st.env.get("_i")
        body = head.copy()
        body.pc.append(i < n)
        if self.feasible(body):
            body.env["_i"] = VInt(i)
            for b in self.assign_target(s.target, elem(i), body, cx):
                b = self.exec_ghost(lc["ghost_begin"], [b], cx)[0] if lc.get("ghost_begin") else b
                for s2, oc in self.exec_block(s.body, b, cx):
                    self.check_frame(head, s2, hf, "loop %s of %s" % (k, cx.fn))
                    if oc[0] in ("normal", "continue"):
                        if lc.get("ghost_end"):
                            s2 = self.exec_ghost(lc["ghost_end"], [s2], cx)[0]
                        self.inv_check(lc, k, s2, cx, "preserved", {"_i": VInt(i + 1), "_n": VInt(n)})
                    elif oc[0] == "break":
                        s2.env.pop("_i", None)
                        if prev_i is not None:
                            s2.env["_i"] = prev_i
                        outs.append((s2, ("normal",)))
                    else:
                        outs.append((s2, oc))
        # 3. exit
        ex = head.copy()
        ex.pc.append(i == n)
        ex.env.pop("_i", None)
        if prev_i is not None:
            ex.env["_i"] = prev_i
        if s.orelse:
            outs.extend(self.exec_block(s.orelse, ex, cx))
        else:
            outs.append((ex, ("normal",)))
        return outs

    def ex_While(self, s, st, cx):
        # constant-false / unrollable loops are not special-cased: a while loop always needs an invariant
        lc, k = self.loop_contract(s, cx)
        if lc is None:
            raise Unsupported("while loop at line %d of %s has no invariant (loop #%s)" % (s.lineno, cx.fn, k))
        mods = assigned_names(s.body) | ghost_names(lc)
        hf = list(lc.get("modifies", []))
        self.inv_check(lc, k, st, cx, "entry", {})
        head = st.copy()
        self.havoc_locals(head, mods, cx, lc)
        self.havoc_heap_fields(head, hf)
        self.inv_assume(lc, head, cx, {})
        outs = []
        for h2, c in self.ev(s.test, head, cx):
            t, f = self.fork(h2, truth(c))
            if t is not None:
                var0 = None
                if lc.get("variant"):
                    var0 = coerce(self.eval_spec(lc["variant"], t, t.env, cx.pre, cx.contract.module), Int).t
                    self.oblige(t, var0 >= 0, "loop%d.variant" % k, "bounded")
                if lc.get("ghost_begin"):
                    t = self.exec_ghost(lc["ghost_begin"], [t], cx)[0]
                for s2, oc in self.exec_block(s.body, t, cx):
                    self.check_frame(head, s2, hf, "loop %s of %s" % (k, cx.fn))
                    if oc[0] in ("normal", "continue"):
                        if lc.get("ghost_end"):
                            s2 = self.exec_ghost(lc["ghost_end"], [s2], cx)[0]
                        self.inv_check(lc, k, s2, cx, "preserved", {})
                        if var0 is not None:
                            v1 = coerce(self.eval_spec(lc["variant"], s2, s2.env, cx.pre, cx.contract.module), Int).t
                            self.oblige(s2, v1 < var0, "loop%d.variant" % k, "decreases")
                    elif oc[0] == "break":
                        outs.append((s2, ("normal",)))
                    else:
                        outs.append((s2, oc))
            if f is not None:
                for lx in lc.get("exit_lemmas", []):
                    f.pc.append(truth(self.eval_spec(lx, f, f.env, cx.pre, cx.contract.module)))
                if s.orelse:
                    outs.extend(self.exec_block(s.orelse, f, cx))
                else:
                    outs.append((f, ("normal",)))
        return outs


def ghost_names(lc):
    "names assigned by ghost code attached to a loop (also by ghost code of loops nested inside: listed in 'ghost_mods')"
    out = set(lc.get("ghost_mods", []))
    for key in ("ghost_begin", "ghost_end"):
        code = lc.get(key)
        if code:
            out |= assigned_names(ast.parse("\n".join(code) if isinstance(code, list) else code).body)
    return out


def _labelled(items):
    out = []
    for i, it in enumerate(items):
        out.append(it if isinstance(it, tuple) else ("inv%d" % i, it))
    return out
