# executor.apply_ast_transformations / reset / __init__ (common/executor.py): serves C07, C14, C15, C06, C11.
EXQ = "func_adl_xAOD.common.executor.executor"
EXR = RefOf(EXQ)
AST_FIELDS_MOD = ["func", "args", "keywords", "value", "cpp_name", "include_files", "cpp_return_type", "fields", "alloc"]

contract("func_adl.ast.extract_metadata", assumed=True, params=dict(a=Ref), result=TTup([Ref, TList(MD)]),
         ensures=["result[0] != None and live(result[0])"], modifies=["alloc"],
         note="func_adl: strips MetaData calls from anywhere in the chain and returns them in order (external)")
contract("func_adl.ast.func_adl_ast_utils.change_extension_functions_to_calls", assumed=True, params=dict(a=Ref), result=Ref,
         ensures=["result != None and live(result)"], modifies=AST_FIELDS_MOD)
for _q in ["func_adl.ast.aggregate_shortcuts.aggregate_node_transformer", "func_adl.ast.function_simplifier.simplify_chained_calls"]:
    contract(_q, assumed=True, params={}, result=RefOf("verif.Transformer"), fresh_result=True, modifies=["alloc"],
             note="external ast.NodeTransformer subclass (func_adl)")
contract("verif.Transformer.visit", virtual=True, assumed=True, params=dict(self=Ref, node=Ref), result=Ref,
         modifies=AST_FIELDS_MOD + ["ghost:gv_log"], may_raise=["Exception"], strict=False,
         ensures=["result != None and live(result)"],
         note="ast.NodeTransformer.visit of an external or plug-in transformer: returns the (possibly rewritten) tree")

contract(EXQ + ".build_collection_callback", virtual=True, assumed=True, params=dict(self=EXR, metadata=EventCollectionSpecification), result=Func,
         may_raise=["ValueError"], strict=False, note="abstract; the three overrides are under contract in c06")

contract(EXQ + ".apply_ast_transformations", props=["C14", "C15", "C07", "C06"],
         params=dict(self=EXR, a=Ref),
         requires=[("ast", "a != None and live(a)"),
                   ("no_extended_metadata_registered", "len(field(self, '_extended_md')) == 0")],
         modifies=AST_FIELDS_MOD + ["ghost:gv_log", "_inject_blocks", "_job_option_blocks", "_found_extended_md", "_method_names@" + "func_adl_xAOD.common.cpp_ast.cpp_ast_finder",
                                    "global:func_adl_xAOD.common.cpp_types.g_method_type_dict", "global:func_adl_xAOD.common.cpp_types.g_toplevel_ns",
                                    "_type", "_p_depth", "_is_const", "_tree_type", "_element_type"],
         may_raise=["Exception"], strict=False, result=Ref,
         opaque_locals=["method_names", "extended_md_types"],
         local_sorts=dict(cpp_functions=TList(Spec)),
         ensures=[("inject_blocks_of_this_query@C14,C07", "is_filtering(field(self, '_inject_blocks'), final_cpp_functions, 'func_adl_xAOD.common.meta_data.InjectCodeBlock')"),
                  ("builtin_callables_untouched@C06,C07", "unchanged('_method_names')"),
                  ("job_blocks_appended@C15", "prefix_of(old(field(self, '_job_option_blocks')), field(self, '_job_option_blocks'))")],
         loops={1: dict(invariant=[("L1", "len(field(self, '_extended_md')) == 0")], modifies=["_found_extended_md"]),
                2: dict(invariant=[("L2.grows", "prefix_of(old(field(self, '_job_option_blocks')), field(self, '_job_option_blocks'))")],
                        modifies=["_job_option_blocks"])})
