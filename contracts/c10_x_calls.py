# C09 / C10 / C01 -- calls: nothing asked for is dropped; lambda calls bind every argument in a frame that is gone on every exit
contract(TR + "query_ast_visitor.visit_Call_Member", props=["C09", "C10"], replay={"nothing_asked_for_is_dropped": "dropped_call_arguments"},
         params=dict(self=QV, call_node=CALLN),
         requires=CVC_REQUIRES + [("member_call", "field(call_node, 'func') != None and live(field(call_node, 'func')) and isinst(field(call_node, 'func'), 'ast.Attribute') and "
                                                 "field(field(call_node, 'func'), 'value', 'ast.Attribute') != None and live(field(field(call_node, 'func'), 'value', 'ast.Attribute'))"),
                                  ("arguments", "all(a != None and live(a) for a in field(call_node, 'args'))")],
         modifies=CVC_MODIFIES + ["_type", "_p_depth", "_is_const", "_tree_type", "_expression", "_scope", "_cpp_type"],
         may_raise=["Exception"], strict=False,
         loops={"comp1": dict(sorts={"_comp1": TList(Str)}, modifies=CVC_MODIFIES, invariant=CVC_LOOP_INV + [("L.len", "len(_comp1) == _i")])},
         ensures=CVC_ENSURES + [
             ("has_rep", "rep_of(call_node) != None and is_new(rep_of(call_node)) and isinst(rep_of(call_node), '" + P + "cpp_representation.cpp_value')"),
             ("nothing_asked_for_is_dropped@C09", "len(field(call_node, 'keywords')) == 0"),
         ])
# ---- (lambda x, ...: body)(a, ...): every argument is bound, by position, in a new frame that is gone on every exit -----------------------------
SFC = external_class("func_adl.ast.call_stack.stack_frame")
ghost("arg_frames", Int)   # depth of the translator's lambda-argument stack (func_adl argument_stack)
contract("func_adl.ast.call_stack.stack_frame", assumed=True, params=dict(arg_stack=Ref), result=RefOf(SFC), fresh_result=True, modifies=["alloc"],
         ensures=["result != None"], note="func_adl: context manager that pushes a frame on the argument stack and pops it on every exit")
contract("func_adl.ast.call_stack.stack_frame.__enter__", assumed=True, params=dict(self=RefOf(SFC)), modifies=["ghost:arg_frames"],
         ensures=["arg_frames == old(arg_frames) + 1"])
contract("func_adl.ast.call_stack.stack_frame.__exit__", assumed=True, params=dict(self=RefOf(SFC), type=Ref, value=Ref, traceback=Ref), modifies=["ghost:arg_frames"],
         ensures=["arg_frames == old(arg_frames) - 1"])
contract("func_adl.ast.call_stack.argument_stack.define_name", assumed=True, params=dict(self=RefOf(ARGSTACK), name=Str, val=Ref),
         note="func_adl: binds the name in the innermost frame")
contract(TR + "query_ast_visitor.visit_Call_Lambda", props=["C09", "C01"],
         params=dict(self=QV, call_node=CALLN),
         requires=CVC_REQUIRES + [("lambda_call", "field(call_node, 'func') != None and live(field(call_node, 'func')) and "
                                                 "implies(isinst(field(call_node, 'func'), 'ast.Lambda'), field(field(call_node, 'func'), 'args', 'ast.Lambda') != None and "
                                                 "live(field(field(call_node, 'func'), 'args', 'ast.Lambda')) and field(field(call_node, 'func'), 'body') != None and "
                                                 "live(field(field(call_node, 'func'), 'body')))")],
         modifies=CVC_MODIFIES + ["ghost:arg_frames"], may_raise=["Exception"], strict=False,
         raises={"AssertionError": "not isinst(field(call_node, 'func'), 'ast.Lambda')"},
         ensures=CVC_ENSURES + [
             ("value_of_the_body@C01", "rep_of(call_node) != None and rep_of(call_node) == rep_of(field(field(call_node, 'func'), 'body'))"),
             ("frame_popped", "arg_frames == old(arg_frames)"),
         ],
         ensures_raise={"*": [("frame_popped_on_failure@C09", "arg_frames == old(arg_frames)")]},
         loops={1: dict(modifies=[], invariant=[("L.depth", "arg_frames == old(arg_frames) + 1")])})
