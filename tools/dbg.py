#!/usr/bin/env python3-vt
"""Development aid: list the undischarged instances of an obligation with the tail of their path conditions.
usage: PYVC_ONLY=<fn> [PYVC_EXTRA_CONTRACTS=..] python3-vt tools/dbg.py <pid> <label-substring> [n-assumptions]"""
import sys, os
sys.path.insert(0, os.path.dirname(os.path.dirname(os.path.abspath(__file__))))
from pyvc.run import PropertyRun
from pyvc import smt
pid, lab = sys.argv[1], sys.argv[2]
n = int(sys.argv[3]) if len(sys.argv) > 3 else 12
r = PropertyRun(pid, "quick", 0)
r.timeout = int(os.environ.get("PYVC_TIMEOUT", "5"))
r.generate()
for u in r.undecided:
    print("UNDECIDED", u)
sel = [o for o in r.obls if lab in o.name]
print(len(sel), "instances")
for i, o in enumerate(sel):
    txt = smt.to_smt2(o.axioms, o.assumptions, o.goal)
    res = smt.solve(txt, r.timeout)
    if res["verdict"] == "unsat":
        continue
    print("=" * 80, i, o.name, "line", o.line, res["verdict"])
    for a in o.assumptions[-n:]:
        print("   A:", str(a).replace("\n", " ")[:400])
    print("   GOAL:", str(o.goal).replace("\n", " ")[:1200])
