"""Sidecar contract language.  Contract files (under /verif/contracts) are plain Python modules that
call `contract(...)`, `schema_*`, `external(...)`, `uninterpreted(...)`.  Expressions are *strings of
Python* which the symbolic executor evaluates in spec mode; spec helper functions are ordinary `def`s in
the contract module (their source is parsed, never imported from /repo)."""
from __future__ import annotations
import ast
import os
from .core import *


class Contract:
    def __init__(self, qn, **kw):
        self.qn = qn
        self.key = qn
        self.theorem = False
        self.props = kw.pop("props", [])
        self.params = kw.pop("params", {})  # name -> Sort (ordered)
        self.result = kw.pop("result", None)  # Sort or None
        self.requires = _lab(kw.pop("requires", []), "pre")
        self.ensures = _lab(kw.pop("ensures", []), "post")
        self.raises = kw.pop("raises", {})  # Exc -> cond string: raises Exc  <=>  cond  (given requires)
        self.raises_only_if = kw.pop("raises_only_if", {})  # Exc -> cond: a raise of Exc implies cond (checked even when strict=False)
        self.strict = kw.pop("strict", True)  # True: `raises` conditions are iff; False: they only forbid a normal return
        self.may_raise = kw.pop("may_raise", [])  # exception classes that may be raised without a stated condition
        self.ensures_raise = {k: _lab(v, "xpost") for k, v in kw.pop("ensures_raise", {}).items()}
        self.modifies = kw.pop("modifies", [])  # heap fields / 'global:<qn>' / 'ghost:<name>'
        self.loops = kw.pop("loops", {})  # ordinal -> dict(invariant=[...], variant=str, modifies=[...])
        self.ghost = kw.pop("ghost", {})  # anchor -> [assignments]
        self.inline = kw.pop("inline", False)
        self.assumed = kw.pop("assumed", False)  # contract is not verified against a body (external / trusted)
        self.module = kw.pop("module", None)  # SpecModule
        self.self_cls = kw.pop("self_cls", None)
        self.note = kw.pop("note", "")
        self.lemmas = kw.pop("lemmas", [])
        self.replay = kw.pop("replay", None)
        self.fresh_result = kw.pop("fresh_result", False)  # result is a newly allocated object
        self.defaults = kw.pop("defaults", {})  # param -> python source of default
        self.known = kw.pop("known", {})
        self.local_sorts = kw.pop("local_sorts", {})
        self.ghost_init = kw.pop("ghost_init", None)
        self.ghost_vars = kw.pop("ghost_vars", [])
        self.aliases = kw.pop("aliases", {})  # extra names in contract expressions bound to parameters (e.g. self -> visitor)
        self.inline_callees = kw.pop("inline_callees", [])  # callees whose REAL body is executed (instead of their contract) in this proof
        self.opaque_locals = kw.pop("opaque_locals", [])  # locals whose value may be left unmodelled (only flow into opaque sinks)
        self.pure_fn = kw.pop("pure_fn", None)  # name of an uninterpreted function: at call sites result := pure_fn(args) (deterministic, heap-free function)
        self.typing_exceptions = kw.pop("typing_exceptions", {})  # field -> reason: stores of another Python type into this field are accepted
        #                                                          (recorded as an unchecked assumption: no reader of that cell relies on the declared type)
        self.only_in = kw.pop("only_in", None)  # a virtual contract that is only used while verifying the listed functions
        self.virtual = kw.pop("virtual", False)  # contract of a base-class method that every override must satisfy (no dispatch fork at call sites)
        self.covers = kw.pop("covers", [])  # conditions that must each be satisfiable together with `requires` (non-vacuity)
        self.logical = kw.pop("logical", {})  # universally quantified logical variables (theorem contracts; not usable at call sites)
        self.pools = kw.pop("pools", {})  # bounded search: value pools per parameter / record field
        self.oracle = kw.pop("oracle", None)  # bounded search: executable oracle in /verif/oracles.py
        self.needs = kw.pop("needs", {})  # ensures label -> invariant labels revealed to the solver (others hidden)  # ensures/raises label -> known-finding id (region handled in known_findings.json)
        if kw:
            raise TypeError("unknown contract keys %r" % list(kw))


def _lab(items, dflt):
    out = []
    for i, it in enumerate(items):
        if isinstance(it, tuple):
            out.append((it[0], it[1]))
        else:
            out.append(("%s%d" % (dflt, i), it))
    return out


class SpecModule:
    "a contract file: parsed for spec functions, executed for registrations"

    def __init__(self, path):
        self.path = path
        self.qn = "spec:" + os.path.basename(path)[:-3]
        with open(path) as f:
            self.src = f.read()
        self.tree = ast.parse(self.src)
        self.functions = {}
        self.classes = {}
        self.assigns = {}
        self.imports = {}
        for st in self.tree.body:
            if isinstance(st, ast.FunctionDef):
                self.functions[st.name] = st
        self.ns = {}


class Registry:
    def __init__(self):
        self.contracts = {}  # qn -> Contract
        self.fields = {}  # field name -> Sort
        self.class_fields = {}  # (class qn, field) -> Sort
        self.globals = {}  # qualified module global -> Sort
        self.records = {}  # class qn -> TRec
        self.unint = {}  # name -> (z3 func, arg sorts, res sort, axioms [str], pyimpl)
        self.spec_modules = []
        self.lemmas = {}  # name -> dict(params, requires, ensures, justification)
        self.ghosts = {}  # ghost var name -> Sort
        self.inline_ok = set()  # repo functions explicitly allowed to be inlined
        self.no_inline = set()
        self.consts = {}
        self.shared = {}
        self.recdefs = {}

    def variant_classes(self, name):
        return [c for (c, n) in self.class_fields if n == name]

    def load(self, path):
        sm = SpecModule(path)
        self.spec_modules.append(sm)
        reg = self
        import pyvc.core as core

        ns = {k: getattr(core, k) for k in dir(core) if not k.startswith("_")}

        def contract(qn, **kw):
            kw.setdefault("module", sm)
            c = Contract(qn.split("#")[0], **kw)
            c.key = qn
            if "#" in qn:
                c.theorem = True
            reg.contracts[qn] = c
            return c

        def field(name, sort, cls=None):
            if cls is None:
                reg.fields[name] = sort
            else:
                reg.class_fields[(cls, name)] = sort

        def glob(qn, sort):
            reg.globals[qn] = sort

        def record(cls_qn, rec: TRec):
            rec.cls = cls_qn
            reg.records[cls_qn] = rec
            return rec

        def uninterpreted(name, args, res, axioms=(), impl=None):
            f = z3.Function(name, *([a.z3() for a in args] + [res.z3()]))
            reg.unint[name] = (f, list(args), res, list(axioms), impl, sm)
            return f

        def recursive(name, params, res, body, impl=None):
            "recursive spec function: define-fun-rec; `body` is a Python expression over the parameters"
            f = z3.RecFunction(name, *([so.z3() for _, so in params] + [res.z3()]))
            reg.unint[name] = (f, [so for _, so in params], res, [], impl, sm)
            reg.recdefs[name] = (f, list(params), res, body, sm)
            return f

        def pseudo_base(name, classes):
            "duck-typed union: `name` acts as a common base class of `classes` (no methods of its own)"
            from .front import Repo, EXTERNAL_BASES
            EXTERNAL_BASES.setdefault(name, [])
            Repo.pseudo.add(name)
            for c in classes:
                Repo.extra_bases.setdefault(c, [])
                if name not in Repo.extra_bases[c]:
                    Repo.extra_bases[c].append(name)
            return name

        def external_class(name, bases=()):
            "a concrete class of a dependency whose methods are described by assumed contracts only"
            from .front import EXTERNAL_BASES
            EXTERNAL_BASES.setdefault(name, list(bases))
            return name

        def lemma(name, **kw):
            kw["module"] = sm
            reg.lemmas[name] = kw

        def ghost(name, sort):
            reg.ghosts[name] = sort

        def inline(*qns):
            reg.inline_ok.update(qns)

        def no_inline(*qns):
            reg.no_inline.update(qns)

        from .sym_call import PYVAL
        ns["PYVAL"] = PYVAL
        ns.update(contract=contract, field=field, glob=glob, record=record, uninterpreted=uninterpreted, lemma=lemma,
                  ghost=ghost, inline=inline, recursive=recursive, pseudo_base=pseudo_base, no_inline=no_inline, REG=reg,
                  external_class=external_class)
        ns.update(self.shared)
        sm.ns = ns
        exec(compile(sm.src, path, "exec"), ns)
        for k, v in ns.items():
            if isinstance(v, (Sort, str, int, list, dict, tuple)) and not k.startswith("_"):
                self.shared[k] = v
        return sm

    def spec_function(self, name):
        for sm in self.spec_modules:
            if name in sm.functions:
                return sm, sm.functions[name]
        return None
