# C04 / C01 -- First(): evaluated lazily under a first-time guard, and loud (throw) when the sequence turned out to be empty.
contract("ast.unparse", assumed=True, params=dict(ast_obj=Ref), result=Str, note="text of a node; only used inside the error message")
BLK = "func_adl_xAOD.common.statement."
_THROW = "throw std::runtime_error(\"First() called on an empty sequence ("
contract(TR + "query_ast_visitor.call_First", props=["C04", "C01"],
         replay={"code_using_the_first_element_runs_inside_the_loops_that_produce_it": "first_of_sequences"},
         params=dict(self=QV, node=Ref, args=TList(Ref)),
         requires=CVC_REQUIRES + [("one_source", "len(args) == 1 and args[0] != None and live(args[0]) and node != None and live(node)"),
                                  ("cursor", "len(cursor(self)) >= 1 and all(b != None and live(b) for b in cursor(self))")],
         modifies=CVC_MODIFIES + ["_expr", "_target", "_value", "_line", "_initial_value", "_expression", "_scope", "_cpp_type"],
         may_raise=["Exception"], strict=False,
         local_sorts=dict(g_out=RefOf(BLOCK), g_at=RefOf(BLOCK), g_n_out=Int, is_first=VAL, s=RefOf(BLOCK), fail=RefOf(BLOCK), sv=REP),
         ghost_init=["g_out = None", "g_at = None", "g_n_out = 0"],
         ghost={"after:outside_block_scope.declare_variable(is_first)": ["g_out = top_block(stack_of(outside_block_scope))"],
                "after:self._gc.add_statement(s)": ["g_at = cursor(self)[len(cursor(self)) - 2]"],
                "after:outside_block_scope.frame_statements(-1).add_statement(fail)": ["g_n_out = len(field(g_out, '_statements'))"]},
         ensures=CVC_ENSURES + [
             ("first_time_flag@C04", "final_is_first != None and is_new(final_is_first) and cls_is(final_is_first, '" + P + "cpp_representation.cpp_variable') and "
                                     "kind_of(final_is_first) == 'bool' and field(final_is_first, '_initial_value') != None and "
                                     "expr_of(field(final_is_first, '_initial_value')) == 'true'"),
             ("flag_declared_outside_the_loop@C04,C01", "final_g_out != None and contains(field(final_g_out, '_variables'), final_is_first)"),
             ("element_code_guarded_by_the_flag@C04", "final_s != None and is_new(final_s) and cls_is(final_s, '" + BLK + "iftest') and field(final_s, '_expr') == final_is_first and "
                                                      "len(field(final_s, '_statements')) >= 1 and cls_is(field(final_s, '_statements')[0], '" + BLK + "set_var') and "
                                                      "field(field(final_s, '_statements')[0], '_target') == final_is_first and "
                                                      "expr_of(field(field(final_s, '_statements')[0], '_value')) == 'false'"),
             ("guard_is_the_open_block@C04,C01", "top_block(cursor(self)) == final_s and final_g_at != None and contains(field(final_g_at, '_statements'), final_s)"),
             ("loud_on_an_empty_sequence@C04", "final_fail != None and is_new(final_fail) and cls_is(final_fail, '" + BLK + "iftest') and "
                                               "expr_of(field(final_fail, '_expr')) == expr_of(final_is_first) and len(field(final_fail, '_statements')) == 1 and "
                                               "cls_is(field(final_fail, '_statements')[0], '" + BLK + "arbitrary_statement') and "
                                               "startswith(field(field(final_fail, '_statements')[0], '_line'), '" + _THROW.replace("\\", "\\\\").replace("'", "\\'") + "')"),
             ("thrown_after_the_loop_where_the_flag_lives@C04", "final_g_n_out >= 1 and field(final_g_out, '_statements')[final_g_n_out - 1] == final_fail"),
             ("code_using_the_first_element_runs_inside_the_loops_that_produce_it@C04,C01",
              "implies(isinst(final_sv, '" + P + "cpp_representation.cpp_sequence') and field(final_sv, '_iterator') != None and scope_of(field(final_sv, '_iterator')) != None and "
              "not is_top(scope_of(field(final_sv, '_iterator'))), prefix_of(stack_of(scope_of(field(final_sv, '_iterator'))), cursor(self)))"),
             ("has_rep", "rep_of(node) != None"),
         ])
