"""Static obligations on the REAL templates, decided with jinja2's own parser (run under /venv/bin/python on every check).
Assumed jinja2 contract (DESIGN 1.6): `{% for x in xs %}A{{x}}B{% endfor %}` renders concat(A + x + B for x in xs), a variable is
rendered verbatim when the environment has no autoescape, an undefined variable renders empty."""
import os
import re
import jinja2
from jinja2 import nodes

REPO = os.environ.get("PYVC_REPO", "/repo")
TDIR = os.path.join(REPO, "func_adl_xAOD", "template")


def parse(rel):
    src = open(os.path.join(TDIR, rel), encoding="utf-8").read()
    return src, jinja2.Environment().parse(src)


def for_loops(tree):
    return list(tree.find_all(nodes.For))


def slot_info(rel, var):
    """-> list of dicts, one per `for` over `var`: target name, body = [TemplateData, Name(target), TemplateData] shape, filters"""
    src, tree = parse(rel)
    out = []
    for f in for_loops(tree):
        if isinstance(f.iter, nodes.Name) and f.iter.name == var:
            tgt = f.target.name if isinstance(f.target, nodes.Name) else None
            outs = [n for n in f.body if isinstance(n, nodes.Output)]
            parts = [p for o in outs for p in o.nodes]
            names = [p for p in parts if not isinstance(p, nodes.TemplateData)]
            plain = len(names) == 1 and isinstance(names[0], nodes.Name) and names[0].name == tgt
            other = [n for n in f.body if not isinstance(n, nodes.Output)]
            out.append(dict(lineno=f.lineno, target=tgt, plain_once=plain and not other and not f.else_ and f.test is None and not f.recursive,
                            text_before="".join(p.data for p in parts[:parts.index(names[0])] if isinstance(p, nodes.TemplateData)) if names else "",
                            text_after="".join(p.data for p in parts[parts.index(names[0]) + 1:] if isinstance(p, nodes.TemplateData)) if names else ""))
    return out


def undeclared(rel):
    from jinja2 import meta
    src, tree = parse(rel)
    return sorted(meta.find_undeclared_variables(tree))


def region_ok(rel, var, after_re, before_re):
    "the `for` over var sits textually after the first match of after_re and before the first following match of before_re"
    src = open(os.path.join(TDIR, rel), encoding="utf-8").read()
    m = re.search(r"{%-?\s*for\s+\w+\s+in\s+" + re.escape(var) + r"\s*-?%}", src)
    if not m:
        return False, "no loop over %s" % var
    a = re.search(after_re, src)
    if not a or a.end() > m.start():
        return False, "loop over %s is not after /%s/" % (var, after_re)
    b = re.search(before_re, src[m.end():])
    if not b:
        return False, "nothing matching /%s/ after the loop over %s" % (before_re, var)
    between = src[a.end():m.start()]
    return True, between
