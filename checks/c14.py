"""C14 static obligations: every inject_code slot is iterated by exactly one `for` of the documented file, printing the loop
variable once, unfiltered, inside the documented structural region.  Prints one JSON line (see pyvc/run.py run_extras)."""
import json, os, sys
sys.path.insert(0, os.path.dirname(os.path.abspath(__file__)))
from templates import slot_info, region_ok

R = "atlas/r21/"
SLOTS = [
    # slot variable, file, region: (after, before) regexes
    ("body_include_files", R + "query.cxx", r"#include <analysis/query.h>", r"query\s*::\s*query\s*\("),
    ("header_include_files", R + "query.h", r"#include <AnaAlgorithm/AnaAlgorithm.h>", r"class\s+query"),
    ("private_members", R + "query.h", r"private:", r"};"),
    ("instance_initialization", R + "query.cxx", r":\s*EL::AnaAlgorithm\s*\(name,\s*pSvcLocator\)", r"\n\{"),
    ("ctor_lines", R + "query.cxx", r"EL::AnaAlgorithm\s*\(name,\s*pSvcLocator\)[^{]*\{", r"StatusCode\s+query\s*::\s*initialize"),
    ("initialize_lines", R + "query.cxx", r"StatusCode\s+query\s*::\s*initialize\s*\(\)\s*\{", r"StatusCode\s+query\s*::\s*execute"),
    ("link_libraries", R + "package_CMakeLists.txt", r"LINK_LIBRARIES\s+AnaAlgorithmLib", r"\)"),
    ("body_include_files", "cms/r5/Analyzer.cc", r"#include", r"class\s+Analyzer"),
    ("body_include_files", "cms/r7/Analyzer.cc", r"#include", r"class\s+Analyzer"),
]
results = []
for var, rel, after, before in SLOTS:
    name = "C14/template:%s:%s" % (rel, var)
    try:
        loops = slot_info(rel, var)
        if len(loops) != 1:
            results.append(dict(name=name + "/exactly_one_loop", kind="static", status="violation",
                                detail="%s is iterated by %d for-loops in %s (documented: exactly once)" % (var, len(loops), rel)))
            continue
        results.append(dict(name=name + "/exactly_one_loop", kind="static", status="ok"))
        l = loops[0]
        results.append(dict(name=name + "/prints_each_line_once_unfiltered", kind="static",
                            status="ok" if l["plain_once"] else "violation",
                            detail="" if l["plain_once"] else "the loop body at line %d of %s does not print the loop variable exactly once, unfiltered" % (l["lineno"], rel)))
        ok, info = region_ok(rel, var, after, before)
        results.append(dict(name=name + "/documented_place", kind="static", status="ok" if ok else "violation", detail="" if ok else info))
    except Exception as e:  # noqa
        results.append(dict(name=name, kind="static", status="undecided", detail="static check crashed: %r" % (e,)))


# ---- static obligation on the real source of executor._write_cpp_files: every template slot is fed from the accessor of the same name ----
# (the accessors themselves are under deductive contract: each returns its own field of the blocks, concatenated in block order)
import ast as _ast
REPO = os.environ.get("PYVC_REPO", "/repo")
try:
    _src = open(os.path.join(REPO, "func_adl_xAOD/common/executor.py"), encoding="utf-8").read()
    _fn = [n for n in _ast.walk(_ast.parse(_src)) if isinstance(n, _ast.FunctionDef) and n.name == "_write_cpp_files"]
    _direct = ["header_include_files", "private_members", "instance_initialization", "initialize_lines", "ctor_lines"]
    _joined = {"body_include_files": ("include_files", "body_include_files"), "link_libraries": ("link_libraries", "link_libraries")}
    if len(_fn) != 1:
        results.append(dict(name="C14/static:slot_wiring", kind="static", status="undecided", detail="executor._write_cpp_files not found (refactored?)"))
    else:
        _assign = {}   # slot -> [value expr]
        _locals = {}   # local name -> [value expr]
        for n in _ast.walk(_fn[0]):
            if isinstance(n, _ast.Assign) and len(n.targets) == 1:
                t = n.targets[0]
                if isinstance(t, _ast.Subscript) and isinstance(t.value, _ast.Name) and t.value.id == "info" and isinstance(t.slice, _ast.Constant):
                    _assign.setdefault(t.slice.value, []).append(n.value)
                elif isinstance(t, _ast.Name):
                    _locals.setdefault(t.id, []).append(n.value)

        def _is_self_attr(e, name):
            return isinstance(e, _ast.Attribute) and isinstance(e.value, _ast.Name) and e.value.id == "self" and e.attr == name

        def _resolve(e):
            return _locals[e.id][0] if isinstance(e, _ast.Name) and len(_locals.get(e.id, [])) == 1 else e
        _bad, _und = [], []
        for sl in _direct + list(_joined):
            vs = _assign.get(sl, [])
            if len(vs) != 1:
                _und.append("info[%r] is assigned %d times" % (sl, len(vs)))
                continue
            v = _resolve(vs[0])
            if sl in _direct:
                if _is_self_attr(v, sl):
                    continue
                if isinstance(v, _ast.Attribute) and isinstance(v.value, _ast.Name) and v.value.id == "self" and v.attr in _direct + list(_joined):
                    _bad.append("template slot %r is fed from self.%s (documented: the %s lines of the inject_code blocks)" % (sl, v.attr, sl))
                else:
                    _und.append("info[%r] = %s" % (sl, _ast.unparse(v)))
            else:
                vis, acc = _joined[sl]
                ok = (isinstance(v, _ast.BinOp) and isinstance(v.op, _ast.Add) and isinstance(v.left, _ast.Call) and isinstance(v.left.func, _ast.Attribute)
                      and v.left.func.attr == vis and _is_self_attr(v.right, acc))
                if ok:
                    continue
                if isinstance(v, _ast.BinOp) and isinstance(v.right, _ast.Attribute) and getattr(v.right.value, "id", None) == "self" and v.right.attr != acc:
                    _bad.append("template slot %r appends self.%s (documented: the %s of the inject_code blocks after the translator's own)" % (sl, v.right.attr, acc))
                else:
                    _und.append("info[%r] = %s" % (sl, _ast.unparse(v)))
        results.append(dict(name="C14/static:slot_wiring", kind="static", status="violation" if _bad else "undecided" if _und else "ok",
                            detail="; ".join(_bad or _und), input=_bad or None))
except Exception as e:  # noqa
    results.append(dict(name="C14/static:slot_wiring", kind="static", status="undecided", detail="static check crashed: %r" % (e,)))


# ---- bounded stand-in: real templates through the real jinja2 --------------------------------------------------
import render as R2
tier = os.environ.get("VERIF_TIER", "quick")
seed = int(os.environ.get("VERIF_SEED", "0") or 0)
n = 40 if tier == "quick" else 600
evals = 0
bad = None
FILES = {"func_adl_xAOD/template/atlas/r21": [("query.cxx", ["body_include_files", "instance_initialization", "ctor_lines", "initialize_lines"]),
                                              ("query.h", ["header_include_files", "private_members"]),
                                              ("package_CMakeLists.txt", ["link_libraries"])],
         "func_adl_xAOD/template/cms/r5": [("Analyzer.cc", ["body_include_files"])],
         "func_adl_xAOD/template/cms/r7": [("Analyzer.cc", ["body_include_files"])]}
try:
    for info in R2.cases(n, seed):
        # make lines unique per slot so that "exactly once" is observable
        info = {k: ["%s<%s%d>" % (v, k, i) for i, v in enumerate(vs)] for k, vs in info.items()}
        for tdir, files in FILES.items():
            for fname, slots in files:
                text = R2.render(tdir, fname, info)
                evals += 1
                for sl in slots:
                    msg = R2.check_slot(text, info[sl], "%s/%s slot %s" % (tdir, fname, sl))
                    if msg and not bad:
                        bad = (msg, {sl: info[sl]})
    results.append(dict(name="C14/bounded:render_special_characters", kind="bounded", status="violation" if bad else "ok",
                        bound="lines from a pool of %d template-special strings (all singletons + %d random mixtures of 0..3 lines per slot), 5 template files" % (len(R2.POOL), n),
                        evaluations=evals, distinct=evals, exhaustive=False, detail=bad[0] if bad else "", input=bad[1] if bad else None))
except Exception as e:  # noqa
    results.append(dict(name="C14/bounded:render_special_characters", kind="bounded", status="undecided", detail="crashed: %r" % (e,)))

# ---- bounded stand-in, end to end: inject_code metadata through the REAL executor (apply_ast_transformations + write_cpp_files) ----------
try:
    import logging, re, tempfile
    from pathlib import Path
    logging.disable(logging.CRITICAL)
    from func_adl import EventDataset
    from func_adl_xAOD.atlas.xaod.executor import atlas_xaod_executor

    class _DS(EventDataset):
        async def execute_result_async(self, a, title):
            return a
    FIELDS = ["body_includes", "header_includes", "private_members", "instance_initialization", "ctor_lines", "initialize_lines", "link_libraries"]
    PLACE = {"body_includes": ("query.cxx", r"#include <analysis/query.h>", r"query\s*::\s*query\s*\("),
             "header_includes": ("query.h", r"#include <AnaAlgorithm/AnaAlgorithm.h>", r"class\s+query"),
             "private_members": ("query.h", r"private:", r"\};"),
             "instance_initialization": ("query.cxx", r"EL::AnaAlgorithm\s*\(name,\s*pSvcLocator\)", r"\n\{"),
             "ctor_lines": ("query.cxx", r"EL::AnaAlgorithm\s*\(name,\s*pSvcLocator\)[^{]*\{", r"StatusCode\s+query\s*::\s*initialize"),
             "initialize_lines": ("query.cxx", r"StatusCode\s+query\s*::\s*initialize\s*\(\)\s*\{", r"StatusCode\s+query\s*::\s*execute"),
             "link_libraries": ("package_CMakeLists.txt", r"LINK_LIBRARIES\s+AnaAlgorithmLib", r"\)")}
    # lines repeat inside a block and across blocks: a repeated line is still a line of its block ("every line exactly once" per occurrence)
    blocks = [dict(metadata_type="inject_code", name="b%d" % k, **{f: ["%s_b%d_l0" % (f, k), "%s_shared" % f, "%s_b%d_l0" % (f, k)] for f in FIELDS}) for k in range(2)]
    ds = _DS()
    for b in blocks + [blocks[0]]:   # the repeated identical block counts once
        ds = ds.MetaData(b)
    a = ds.Select("lambda e: e.Jets('AntiKt4EMTopoJets').Select(lambda j: j.pt())").value()
    exe = atlas_xaod_executor()
    with tempfile.TemporaryDirectory() as d:
        exe.write_cpp_files(exe.apply_ast_transformations(a), Path(d))
        files = {f.name: f.read_text() for f in Path(d).iterdir() if f.is_file()}
    bad2 = None
    ev2 = 0
    for f in FIELDS:
        fname, after, before = PLACE[f]
        want = [ln for b in blocks for ln in b[f]]
        text = files[fname]
        ev2 += 1
        got = re.findall(r"\b%s_(?:b\d_l\d|shared)\b" % f, text)
        msg = None
        if got != want:
            msg = "inject_code field %s: %s shows the lines %r, the blocks hold %r (every line once per occurrence, in block order)" % (f, fname, got, want)
        if not msg:
            m1 = re.search(after, text)
            first = text.find(want[0])
            m2 = re.compile(before).search(text, text.rfind(want[-1]))
            if not m1 or first < m1.end() or not m2:
                msg = "inject_code field %s: its lines are not in the documented place of %s" % (f, fname)
        for other, txt in files.items():
            if other != fname and any(ln in txt for ln in want):
                msg = msg or "inject_code field %s: a line also appears in %s" % (f, other)
        if msg and not bad2:
            bad2 = msg
    results.append(dict(name="C14/bounded:inject_code_end_to_end", kind="bounded", status="violation" if bad2 else "ok", detail=bad2 or "",
                        bound="two blocks x seven fields x three lines, with lines repeated inside a block and across blocks (+ one repeated identical block) through the real ATLAS executor", evaluations=ev2, distinct=ev2,
                        exhaustive=False, input=bad2))
except Exception as e:  # noqa
    results.append(dict(name="C14/bounded:inject_code_end_to_end", kind="bounded", status="undecided", detail="crashed: %r" % (e,)))
print(json.dumps(dict(results=results)))
