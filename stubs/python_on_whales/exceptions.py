class DockerException(Exception):
    def __init__(self, command_launched=None, return_code=1, stdout=None, stderr=None):
        self.docker_command = command_launched
        self.return_code = return_code
        super().__init__("The docker command executed was `%s`. It returned with code %s" % (" ".join(command_launched or []), return_code))


class NoSuchContainer(DockerException):
    pass
