# C02 / C03 / C18 -- emission of the IR as C++ text (common/statement.py, the three query_ast_visitor.py, executor._cpp_source_emitter)
EX = "func_adl_xAOD.common.executor."
STQ = "func_adl_xAOD.common.statement."


def lines(e):
    return field(e, "_lines_of_query_code")


def indent(n):
    return str_repeat("  ", n)


contract(EX + "_cpp_source_emitter.add_line", props=["C02"],
         params=dict(self=EMITTER, ll=Str),
         modifies=["_lines_of_query_code", "_indent_level"],
         ensures=[("appended", "len(lines(self)) == len(old(lines(self))) + 1 and prefix_of(old(lines(self)), lines(self))"),
                  ("text", "lines(self)[len(old(lines(self)))] == indent(old(field(self, '_indent_level')) - (1 if ll == '}' else 0)) + ll"),
                  ("nesting", "field(self, '_indent_level') == old(field(self, '_indent_level')) + (1 if ll == '{' else 0) - (1 if ll == '}' else 0)"),
                  ("frame", "frame('_lines_of_query_code', self) and frame('_indent_level', self)")])


def line_is(e, k, text):
    "line k of the emitter is `text` at the emitter's current indentation (these emitters never open a brace)"
    return lines(e)[k] == indent(field(e, "_indent_level")) + text


def one_more_line(e, text):
    return len(lines(e)) == len(old(lines(e))) + 1 and prefix_of(old(lines(e)), lines(e)) and line_is(e, len(old(lines(e))), text)


def branch_line(pair):
    return 'myTree->Branch("' + pair[0] + '", &' + expr_of(pair[1]) + ');'


# ---- booking statements: one Branch line per column, with the column's own name and variable ----------------------
_BOOK_LOOP = {1: dict(invariant=[("I.count", "len(lines(e)) == g_l0 + _i and prefix_of(g_head, lines(e)) and len(g_head) == g_l0 and "
                                             "field(e, '_indent_level') == old(field(e, '_indent_level'))"),
                                 ("I.branches", "all(line_is(e, q, branch_line(field(self, '_leaves')[q - g_l0])) for q in range(g_l0, g_l0 + _i))")],
                      modifies=["_lines_of_query_code", "_indent_level"])}
for _qn, _head in [("func_adl_xAOD.atlas.xaod.query_ast_visitor.book_xaod_ttree", 2),
                   ("func_adl_xAOD.cms.aod.query_ast_visitor.book_cms_aod_ttree", 2),
                   ("func_adl_xAOD.cms.miniaod.query_ast_visitor.book_cms_miniaod_ttree", 2)]:
    contract(_qn + ".emit", props=["C03", "C02", "C18"],
             params=dict(self=RefOf(_qn), e=EMITTER),
             requires=["e != None and live(e)", "all(p[1] != None and live(p[1]) for p in field(self, '_leaves'))"],
             modifies=["_lines_of_query_code", "_indent_level"],
             local_sorts=dict(g_l0=Int, g_head=TList(Str)), ghost_init=["g_l0 = 0", "g_head = lines(e)"],
             ghost={"before:for#1": ["g_l0 = len(lines(e))", "g_head = lines(e)"]},
             ensures=[("head_lines", "len(lines(e)) == len(old(lines(e))) + %d + len(field(self, '_leaves')) and prefix_of(old(lines(e)), lines(e))" % _head),
                      ("tree_named", "contains(lines(e)[len(old(lines(e))) + %d], '\"' + field(self, '_tree_name') + '\"')" % (0 if "xaod" in _qn else 1)),
                      ("one_branch_per_column", "all(line_is(e, len(old(lines(e))) + %d + k, branch_line(field(self, '_leaves')[k])) "
                                                "for k in range(0, len(field(self, '_leaves'))))" % _head)],
             loops=_BOOK_LOOP)

# ---- fill statements --------------------------------------------------------------------------------------------
for _qn, _txt in [("func_adl_xAOD.atlas.xaod.query_ast_visitor.xaod_ttree_fill", "'tree(\"' + field(self, '_tree_name') + '\")->Fill();'"),
                  ("func_adl_xAOD.cms.aod.query_ast_visitor.cms_aod_ttree_fill", "'myTree->Fill();'"),
                  ("func_adl_xAOD.cms.miniaod.query_ast_visitor.cms_miniaod_ttree_fill", "'myTree->Fill();'")]:
    contract(_qn + ".emit", props=["C02", "C03"], params=dict(self=RefOf(_qn), e=EMITTER), requires=["e != None and live(e)"],
             modifies=["_lines_of_query_code", "_indent_level"],
             ensures=[("fill_line", "one_more_line(e, %s)" % _txt)])

# ---- simple statements ----------------------------------------------------------------------------------------
def tname(v):
    return field(type_of(v), "_type", "func_adl_xAOD.common.cpp_types.terminal")


contract(STQ + "set_var.emit", props=["C02", "C13"], params=dict(self=RefOf(STQ + "set_var"), e=EMITTER),
         requires=["e != None and live(e)", "field(self, '_target') != None and live(field(self, '_target')) and field(self, '_value') != None and live(field(self, '_value'))"],
         modifies=["_lines_of_query_code", "_indent_level"],
         ensures=[("plain_assignment@C02,C13", "implies(type_of(field(self, '_target')) == None or type_of(field(self, '_value')) == None or "
                                               "tname(field(self, '_target')) == tname(field(self, '_value')), "
                                               "one_more_line(e, expr_of(field(self, '_target')) + ' = ' + expr_of(field(self, '_value')) + ';'))"),
                  ("cast_on_kind_mismatch@C13", "implies(type_of(field(self, '_target')) != None and type_of(field(self, '_value')) != None and "
                                                "tname(field(self, '_target')) != tname(field(self, '_value')), "
                                                "one_more_line(e, expr_of(field(self, '_target')) + ' = static_cast<' + tname(field(self, '_target')) + '>(' + "
                                                "expr_of(field(self, '_value')) + ');'))")])

contract(STQ + "container_clear.emit", props=["C02", "C05"], params=dict(self=RefOf(STQ + "container_clear"), e=EMITTER),
         requires=["e != None and live(e)", "field(self, '_collection') != None and live(field(self, '_collection'))"],
         modifies=["_lines_of_query_code", "_indent_level"],
         ensures=[("clear_line", "one_more_line(e, expr_of(field(self, '_collection')) + '.clear();')")])

contract(STQ + "arbitrary_statement.emit", props=["C02"], params=dict(self=RefOf(STQ + "arbitrary_statement"), e=EMITTER),
         requires=["e != None and live(e)", "field(self, '_line') != '{' and field(self, '_line') != '}'"],
         modifies=["_lines_of_query_code", "_indent_level"],
         ensures=[("one_semicolon", "one_more_line(e, field(self, '_line') if endswith(field(self, '_line'), ';') else field(self, '_line') + ';')")])

# ---- str(type): a pure function of the (immutable) type object ----------------------------------------------------
uninterpreted("type_str", [Ref], Str)
contract("verif.TypeText.__str__", virtual=True, assumed=True, params=dict(self=TERM), result=Str,
         only_in=["func_adl_xAOD.common.statement.block.emit", "func_adl_xAOD.common.generated_code.generated_code.class_declaration_code",
                  "func_adl_xAOD.atlas.xaod.event_collections.atlas_event_collection_coder.get_running_code",
                  "func_adl_xAOD.cms.aod.event_collections.cms_event_collection_coder.get_running_code",
                  "func_adl_xAOD.cms.miniaod.event_collections.cms_event_collection_coder.get_running_code"],
         ensures=["result == type_str(self)"],
         note="DEFINITION of the ghost function type_str: str(t) of a type object (terminal and its subclasses override __str__; "
              "type objects are never mutated after construction except through a copy)")

# ---- statements: common (virtual) contract of emit ------------------------------------------------------------
EMIT_MODS = ["_lines_of_query_code", "_indent_level"]
EMIT_CVC = [("emit.grows", "prefix_of(old(lines(e)), lines(e))"),
            ("emit.balanced", "field(e, '_indent_level') == old(field(e, '_indent_level'))"),
            ("emit.only_emitter", "frame('_lines_of_query_code', e) and frame('_indent_level', e)")]
contract("verif.Statement.emit", virtual=True, assumed=True, params=dict(self=RefOf(STMT), e=EMITTER),
         requires=["e != None and live(e)"], modifies=EMIT_MODS, may_raise=["Exception"], strict=False, ensures=EMIT_CVC,
         note="every statement class's emit is verified against these clauses (grows the line list, keeps braces balanced)")


def decl_line(v):
    "declaration of a block-local variable: <type> <name>[ (<initial value>)];"
    return (type_str(type_of(v)) + " " + expr_of(v) +
            ("" if (not isinst(v, "func_adl_xAOD.common.cpp_representation.cpp_variable") or field(v, "_initial_value") == None)
             else " (" + expr_of(field(v, "_initial_value")) + ")") + ";")


BLOCK_LOOPS = {
    1: dict(modifies=EMIT_MODS, invariant=[
        ("B.frame", "frame('_lines_of_query_code', e) and frame('_indent_level', e)"),
        ("B.decl_count", "len(lines(e)) == g_l0 + 1 + _i and prefix_of(g_head, lines(e)) and len(g_head) == g_l0 + 1 and "
                         "field(e, '_indent_level') == old(field(e, '_indent_level')) + 1"),
        ("B.decls", "all(lines(e)[q] == indent(old(field(e, '_indent_level')) + 1) + decl_line(field(self, '_variables')[q - g_l0 - 1]) "
                    "for q in range(g_l0 + 1, g_l0 + 1 + _i))")]),
    2: dict(modifies=EMIT_MODS, invariant=[
        ("B.frame", "frame('_lines_of_query_code', e) and frame('_indent_level', e)"),
        ("B.stmts_after_decls", "len(lines(e)) >= len(g_head2) and prefix_of(g_head2, lines(e)) and "
                                "field(e, '_indent_level') == old(field(e, '_indent_level')) + 1")]),
}
contract(STQ + "block.emit", props=["C02", "C05"], params=dict(self=RefOf(STQ + "block"), e=EMITTER),
         requires=["e != None and live(e)", "field(e, '_indent_level') >= 0",
                   "all(v != None and live(v) and type_of(v) != None for v in field(self, '_variables'))",
                   "all(s != None and live(s) for s in field(self, '_statements'))"],
         modifies=EMIT_MODS, may_raise=["Exception"], strict=False,
         local_sorts=dict(g_l0=Int, g_head=TList(Str), g_head2=TList(Str)),
         ghost_init=["g_l0 = len(lines(e))", "g_head = lines(e)", "g_head2 = lines(e)"],
         ghost={"before:for#1": ["g_head = lines(e)"], "before:for#2": ["g_head2 = lines(e)"]},
         ensures=EMIT_CVC + [
             ("open_brace", "lines(e)[len(old(lines(e)))] == indent(old(field(e, '_indent_level'))) + '{'"),
             ("declarations_first", "len(lines(e)) >= len(old(lines(e))) + 2 + len(field(self, '_variables')) and "
                                    "all(lines(e)[len(old(lines(e))) + 1 + k] == indent(old(field(e, '_indent_level')) + 1) + decl_line(field(self, '_variables')[k]) "
                                    "for k in range(0, len(field(self, '_variables'))))"),
             ("close_brace", "lines(e)[len(lines(e)) - 1] == indent(old(field(e, '_indent_level'))) + '}'"),
         ], loops=BLOCK_LOOPS)
