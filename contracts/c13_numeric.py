# C13 -- arithmetic follows Python numerics on the declared value types.
UT = "func_adl_xAOD.common.utils."


def rank(k):
    "widening order of the arithmetic kinds"
    return 0 if k == "int" else (1 if k == "float" else 2)


def arith(k):
    return k == "int" or k == "float" or k == "double"


def tkind(t):
    return field(t, "_type", "func_adl_xAOD.common.cpp_types.terminal")


contract(UT + "most_accurate_type", props=["C13", "C12"], replay="most_accurate_type",
         params=dict(type_list=TList(RefOf("func_adl_xAOD.common.cpp_types.terminal"))),
         result=RefOf("func_adl_xAOD.common.cpp_types.terminal"),
         raises={"AssertionError": "len(type_list) == 0 or any(not arith(tkind(t)) for t in type_list)"},
         ensures=[("member", "any(result == t for t in type_list)"),
                  ("widest", "all(rank(tkind(result)) >= rank(tkind(t)) for t in type_list)")])

# ---- binary / unary / comparison operators (ast_to_cpp_translator.py:891-1002) ---------------------------------
def op_is(node, name):
    return cls_is(field(node, "op"), "ast." + name)


def op_text(node):
    return ("+" if op_is(node, "Add") else "-" if op_is(node, "Sub") else "*" if op_is(node, "Mult") else "/" if op_is(node, "Div") else "%")


def known_binop(node):
    return op_is(node, "Add") or op_is(node, "Sub") or op_is(node, "Mult") or op_is(node, "Div") or op_is(node, "Mod")


def widest(kl, kr):
    return kl if rank(kl) >= rank(kr) else kr


def py_bin_kind(node, kl, kr):
    "Python reference: / and ** are real; + - * % give the wider operand kind (bool counts as int)"
    return "double" if (op_is(node, "Div") or op_is(node, "Pow")) else widest(kl, kr)


def cxx_bin_kind(node, kl, kr):
    "C++ usual arithmetic conversions on the declared kinds: the wider operand kind; % is ill-formed on a floating operand"
    return ("double" if op_is(node, "Pow") else
            "ill-formed" if (op_is(node, "Mod") and (kl != "int" or kr != "int")) else widest(kl, kr))


def cxx_agrees(node, kl, kr, declared):
    """the C++ static type of the emitted expression carries the declared (Python) value: same kind, or a floating kind that
    widens implicitly into the declared one; an integer static type under a floating declaration truncates"""
    return (cxx_bin_kind(node, kl, kr) != "ill-formed" and
            (cxx_bin_kind(node, kl, kr) == declared or (cxx_bin_kind(node, kl, kr) != "int" and rank(declared) >= rank(cxx_bin_kind(node, kl, kr)))))


BINOP_NODE = RefOf("ast.BinOp")
contract(TR + "query_ast_visitor.visit_BinOp", props=["C13", "C09", "C02"],
         params=dict(self=QV, node=BINOP_NODE),
         local_sorts=dict(left=VAL, right=VAL),
         requires=CVC_REQUIRES + [("operands", "field(node, 'left') != None and field(node, 'right') != None and field(node, 'op') != None")],
         modifies=CVC_MODIFIES, may_raise=["Exception"], strict=False,
         ensures=CVC_ENSURES + [
             ("has_rep", "rep_of(node) != None and live(rep_of(node))"),
             ("text@C13", "implies(known_binop(node), is_new(rep_of(node)) and "
                          "expr_of(rep_of(node)) == '(' + expr_of(final_left) + op_text(node) + expr_of(final_right) + ')')"),
             ("python_result_kind@C13", "implies(known_binop(node), kind_of(rep_of(node)) == py_bin_kind(node, kind_of(final_left), kind_of(final_right)))"),
             ("cxx_static_type_is_declared_kind@C13", "implies(known_binop(node), cxx_agrees(node, kind_of(final_left), kind_of(final_right), kind_of(rep_of(node))))"),
             ("operator_well_formed@C02", "implies(known_binop(node), cxx_bin_kind(node, kind_of(final_left), kind_of(final_right)) != 'ill-formed')"),
             ("operands_arithmetic@C13,C09", "implies(known_binop(node), arith(kind_of(final_left)) and arith(kind_of(final_right)))"),
         ])

UNOP_NODE = RefOf("ast.UnaryOp")
contract(TR + "query_ast_visitor.visit_UnaryOp", props=["C13", "C09"],
         params=dict(self=QV, node=UNOP_NODE), local_sorts=dict(operand=VAL),
         requires=CVC_REQUIRES + [("operand", "field(node, 'operand') != None and field(node, 'op') != None")],
         modifies=CVC_MODIFIES, may_raise=["Exception"], strict=False,
         raises={"RuntimeError": "not (op_is(node, 'UAdd') or op_is(node, 'USub') or op_is(node, 'Not'))"},
         ensures=CVC_ENSURES + [
             ("has_rep", "rep_of(node) != None and is_new(rep_of(node))"),
             ("text@C13", "expr_of(rep_of(node)) == '(' + ('+' if op_is(node, 'UAdd') else '-' if op_is(node, 'USub') else '!') + '(' + expr_of(final_operand) + '))'"),
             ("kind_of_operand@C13", "type_of(rep_of(node)) == type_of(final_operand)"),
         ])

CMP_NODE = RefOf("ast.Compare")


def cmp_text(o):
    return ("<" if cls_is(o, "ast.Lt") else "<=" if cls_is(o, "ast.LtE") else ">" if cls_is(o, "ast.Gt") else
            ">=" if cls_is(o, "ast.GtE") else "==" if cls_is(o, "ast.Eq") else "!=")


def known_cmp(o):
    return (cls_is(o, "ast.Lt") or cls_is(o, "ast.LtE") or cls_is(o, "ast.Gt") or cls_is(o, "ast.GtE") or cls_is(o, "ast.Eq") or cls_is(o, "ast.NotEq"))


contract(TR + "query_ast_visitor.visit_Compare", props=["C13", "C09"],
         params=dict(self=QV, node=CMP_NODE), local_sorts=dict(left=VAL, right=VAL),
         requires=CVC_REQUIRES + [("parts", "field(node, 'left') != None and len(field(node, 'ops')) == len(field(node, 'comparators')) and "
                                            "all(c != None for c in field(node, 'comparators')) and all(o != None for o in field(node, 'ops'))")],
         modifies=CVC_MODIFIES, may_raise=["Exception"], strict=False,
         raises={"RuntimeError": "len(field(node, 'ops')) != 1"},
         ensures=CVC_ENSURES + [
             ("boolean@C13", "plain_value(rep_of(node), '(' + expr_of(final_left) + cmp_text(field(node, 'ops')[0]) + expr_of(final_right) + ')', 'bool')"),
             ("known_operator@C09", "known_cmp(field(node, 'ops')[0])"),
         ])

# ---- `**`: a real power through std::pow, anything else that is not + - * / % is refused ------------------------------------------------------
contract(TR + "query_ast_visitor.visit_special_BinOp", props=["C13", "C09", "C12"],
         params=dict(self=QV, node=BINOP_NODE), local_sorts=dict(left=VAL, right=VAL),
         requires=CVC_REQUIRES + [("operands", "field(node, 'left') != None and field(node, 'right') != None and field(node, 'op') != None")],
         modifies=CVC_MODIFIES, may_raise=["Exception"], strict=False,
         raises={"RuntimeError": "not op_is(node, 'Pow')"},
         ensures=CVC_ENSURES + [
             ("real_power@C13", "is_new(rep_of(node)) and expr_of(rep_of(node)) == 'std::pow(' + expr_of(final_left) + ', ' + expr_of(final_right) + ')' and "
                                "kind_of(rep_of(node)) == 'double' and field(type_of(rep_of(node)), '_p_depth') == 0"),
             ("header_requested@C12,C13", "contains(field(gc_of(self), '_include_files'), 'cmath')"),
         ])
