"""C03 bounded stand-in (never counted as proved) for the one assumed helper of the column contracts: cpp_identifier_from(name), a regular
expression substitution (outside the deductive encoding).  Exhaustive over all strings of length <= 3 from a 9-character alphabet plus a
list of realistic column names: the result has the length of the name, consists of identifier characters only, and is the name itself when
the name is an identifier already (so distinct identifier names keep distinct members)."""
import itertools, json, os, re
results = []
try:
    from func_adl_xAOD.common.ast_to_cpp_translator import cpp_identifier_from
    alphabet = ["a", "Z", "7", "_", ".", " ", "-", '"', "é"]
    pool = ["".join(t) for n in range(0, 4) for t in itertools.product(alphabet, repeat=n)]
    pool += ["jet.pt", "a b", "el_pt[0]", "pt/GeV", "x::y", "µ", "col1", "JetPt", "n-1", "2nd"]
    bad, n = None, 0
    for s in pool:
        r = cpp_identifier_from(s)
        n += 1
        if len(r) != len(s) or not re.fullmatch(r"[A-Za-z0-9_]*", r) or (re.fullmatch(r"[A-Za-z0-9_]*", s) and r != s) or \
                any(a != b and re.fullmatch(r"[A-Za-z0-9_]", a) for a, b in zip(s, r)):
            bad = "cpp_identifier_from(%r) == %r" % (s, r)
            break
    results.append(dict(name="C03/bounded:cpp_identifier_from", kind="bounded", status="violation" if bad else "ok", detail=bad or "", input=bad,
                        bound="all strings of length <= 3 over %r + 10 realistic names" % "".join(alphabet), evaluations=n, distinct=n, exhaustive=True))
except ImportError as e:
    results.append(dict(name="C03/bounded:cpp_identifier_from", kind="bounded", status="undecided", detail="helper not found: %r" % (e,)))
except Exception as e:  # noqa
    results.append(dict(name="C03/bounded:cpp_identifier_from", kind="bounded", status="undecided", detail="stand-in crashed: %r" % (e,)))
print(json.dumps(dict(results=results)))
