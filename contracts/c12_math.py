# C12 -- every documented math function is accepted and computes its namesake.
CF = "func_adl_xAOD.common.cpp_functions."
FAST = RefOf(CF + "FunctionAST")

def ret_type(call_node):
    return field(field(call_node, "func"), "cpp_return_type")


contract(TR + "query_ast_visitor.visit_function_ast", props=["C12", "C09"], replay={"nothing_asked_for_is_dropped": "dropped_call_arguments"},
         params=dict(self=QV, call_node=RefOf("ast.Call")),
         requires=CVC_REQUIRES + [("func", "field(call_node, 'func') != None and isinst(field(call_node, 'func'), '" + CF + "FunctionAST')"),
                                  ("args", "all(a != None for a in field(call_node, 'args'))"),
                                  ("return_type_is_a_type", "u_is_str(ret_type(call_node)) or (u_is_obj(ret_type(call_node)) and "
                                                            "isinst(u_obj(ret_type(call_node)), 'func_adl_xAOD.common.cpp_types.terminal'))")],
         modifies=CVC_MODIFIES, may_raise=["Exception"], strict=False, result=VAL,
         ensures=CVC_ENSURES + [
             ("rep@C12", "result != None and is_new(result) and rep_of(call_node) == result"),
             ("nothing_asked_for_is_dropped@C09", "len(field(call_node, 'keywords')) == 0"),
             ("call_text@C12", "startswith(expr_of(result), field(field(call_node, 'func'), 'cpp_name') + '(') and endswith(expr_of(result), ')')"),
             ("usable_in_arithmetic@C12", "isinst(type_of(result), 'func_adl_xAOD.common.cpp_types.terminal') and "
                                          "kind_of(result) == (u_str(ret_type(call_node)) if u_is_str(ret_type(call_node)) else "
                                          "field(u_obj(ret_type(call_node)), '_type', 'func_adl_xAOD.common.cpp_types.terminal'))"),
             ("includes_added@C12", "all(contains(field(gc_of(self), '_include_files'), i) for i in field(field(call_node, 'func'), 'include_files'))"),
         ],
         loops={"comp1": dict(sorts={"_comp1": TList(VAL)}, modifies=CVC_MODIFIES,
                              invariant=CVC_LOOP_INV + [("L.len", "len(_comp1) == _i"),
                                                        ("L.values", "all(x != None and live(x) for x in _comp1)")]),
                1: dict(invariant=[("I.inc", "all(contains(field(gc_of(self), '_include_files'), field(cpp_func, 'include_files')[k]) for k in range(0, _i))"),
                                   ("I.grow", "prefix_of(old(field(gc_of(self), '_include_files')), field(gc_of(self), '_include_files'))")],
                        modifies=["_include_files"])})

# ---- the function table ---------------------------------------------------------------------------------------
import os, re as _re
_readme = open(os.path.join(os.environ.get("PYVC_REPO", "/repo"), "README.md"), encoding="utf-8").read()
_m = _re.search(r"^- Math functions are pulled from the C\+\+ \[`cmath` library\]\([^)]*\):(.*)$", _readme, _re.M)
DOCUMENTED = _re.findall(r"`([A-Za-z0-9_]+)`", _m.group(1)) if _m else []
DOCUMENTED_MATH = list(dict.fromkeys(DOCUMENTED))  # names the documentation lists (re-read from README.md on every run)


def namesake_ok(n, cpp):
    "the C++ function that computes the python function named n"
    return cpp == "std::log" if n == "ln" else ((cpp == "std::abs" or cpp == "std::fabs") if n == "abs" else cpp == "std::" + n)


contract(CF + "add_function_mapping", props=["C12"],
         params=dict(python_name=Str, cpp_name=Str, include_files=Str, return_type=Str),
         modifies=["global:" + CF + "functions_to_replace", "alloc"],
         ensures=[("inserted", "python_name in functions_to_replace and functions_to_replace[python_name].cpp_name == cpp_name"),
                  ("header_list", "seq_eq(functions_to_replace[python_name].include_files, [include_files])"),
                  ("typed", "is_new(functions_to_replace[python_name].cpp_return_type) and "
                            "cls_is(functions_to_replace[python_name].cpp_return_type, 'func_adl_xAOD.common.cpp_types.terminal') and "
                            "field(functions_to_replace[python_name].cpp_return_type, '_type') == return_type and "
                            "field(functions_to_replace[python_name].cpp_return_type, '_p_depth') == 0"),
                  ("others_kept", "forall(str, lambda k: implies(k != python_name, (k in functions_to_replace) == (k in old(functions_to_replace)) and "
                                  "implies(k in old(functions_to_replace), functions_to_replace[k] == old(functions_to_replace)[k])))")])

# the table is built by ~75 calls at import time: the module proof executes the real body of add_function_mapping at each
# call (concrete keys; no quantified frame conditions to chain), the contract above is verified on its own
inline(CF + "add_function_mapping")

_table_ensures = []
for _n in DOCUMENTED_MATH:
    import builtins as _b
    # a documented name that python resolves to a builtin reaches the table as 'builtins.<name>' (find_known_functions)
    for _key in ([_n] if not hasattr(_b, _n) else [_n, "builtins." + _n]):
        _table_ensures.append(("accepted[%s]" % _key, "'%s' in functions_to_replace" % _key))
        _table_ensures.append(("namesake[%s]" % _key, "namesake_ok('%s', functions_to_replace['%s'].cpp_name)" % (_n, _key)))
        _table_ensures.append(("header[%s]" % _key, "contains(functions_to_replace['%s'].include_files, 'cmath')" % _key))
        _table_ensures.append(("real_valued[%s]" % _key, "field(functions_to_replace['%s'].cpp_return_type, '_type') == 'double'" % _key))

contract(CF + "<module>", props=["C12"], params={}, replay="math_table",
         modifies=["global:" + CF + "functions_to_replace", "alloc"],
         ensures=[("documentation_found", "%d >= 40" % len(DOCUMENTED_MATH))] + _table_ensures)

# ---- call-site replacement (find_known_functions.visit_Call) ------------------------------------------------------
ghost("gv_log", TList(Ref))   # nodes on which the generic (children-first) traversal has been run
FKF = RefOf(CF + "find_known_functions")
contract("ast.NodeTransformer.generic_visit", assumed=True,
         params=dict(self=Ref, node=Ref), result=Ref,
         modifies=["ghost:gv_log", "func", "args", "alloc"],
         ensures=["gv_log == concat(old(gv_log), [node])", "result == node",
                  "field(node, 'func') == old(field(node, 'func'))", "seq_eq(field(node, 'args'), old(field(node, 'args')))"],
         note="ast.NodeTransformer.generic_visit visits every child first (here: rewrites nested calls in place) and returns the node")

contract("builtins.eval", assumed=True, params=dict(source=Str), result=Ref, may_raise=["NameError"], strict=False,
         note="eval(name) of a bare identifier: the object the name is bound to, or NameError")

contract(CF + "find_known_functions.visit_Call", props=["C12"], replay={"children_first": "nested_math_functions"},
         params=dict(self=FKF, node=RefOf("ast.Call")), result=RefOf("ast.Call"),
         requires=["field(node, 'func') != None and live(field(node, 'func'))"],
         modifies=["ghost:gv_log", "func", "args", "cpp_name", "include_files", "cpp_return_type", "fields", "alloc"],
         ensures=[("children_first", "len(gv_log) == len(old(gv_log)) + 1 and gv_log[len(old(gv_log))] == node"),
                  ("same_node", "result == node"),
                  ("not_a_name_untouched", "implies(not cls_is(old(field(node, 'func')), 'ast.Name'), field(node, 'func') == old(field(node, 'func')))"),
                  ("replacement_from_table",
                   "field(node, 'func') == old(field(node, 'func')) or (is_new(field(node, 'func')) and cls_is(field(node, 'func'), '" + CF + "FunctionAST') and "
                   "exists(str, lambda k: k in functions_to_replace and (k == field(old(field(node, 'func')), 'id') or endswith(k, '.' + field(old(field(node, 'func')), 'id'))) and "
                   "field(field(node, 'func'), 'cpp_name') == functions_to_replace[k].cpp_name and "
                   "seq_eq(field(field(node, 'func'), 'include_files'), functions_to_replace[k].include_files) and "
                   "u_is_obj(field(field(node, 'func'), 'cpp_return_type')) and "
                   "u_obj(field(field(node, 'func'), 'cpp_return_type')) == functions_to_replace[k].cpp_return_type))"),
                  ("arguments_kept", "seq_eq(field(node, 'args'), old(field(node, 'args')))")])
