"""C07 static obligation: no function keeps a mutable default-argument object alive across calls (a `{}` / `[]` default that is stored
into an attribute or mutated is one object shared by every call: state of one executor / query would be visible to the next)."""
import ast, json, os
REPO = os.environ.get("PYVC_REPO", "/repo")
results = []
bad = []
n_funcs = 0
for d, _, fs in os.walk(os.path.join(REPO, "func_adl_xAOD")):
    for f in fs:
        if not f.endswith(".py") or os.sep + "template" + os.sep in os.path.join(d, f):
            continue
        path = os.path.join(d, f)
        tree = ast.parse(open(path, encoding="utf-8").read())
        for fn in [n for n in ast.walk(tree) if isinstance(n, (ast.FunctionDef, ast.AsyncFunctionDef))]:
            n_funcs += 1
            a = fn.args
            names = [x.arg for x in a.posonlyargs + a.args]
            pairs = list(zip(names[len(names) - len(a.defaults):], a.defaults)) + [(k.arg, dv) for k, dv in zip(a.kwonlyargs, a.kw_defaults) if dv is not None]
            for pname, dv in pairs:
                mutable = isinstance(dv, (ast.Dict, ast.List, ast.Set)) or (isinstance(dv, ast.Call) and isinstance(dv.func, ast.Name) and dv.func.id in ("dict", "list", "set", "defaultdict"))
                if not mutable:
                    continue
                for n in ast.walk(fn):
                    stored = isinstance(n, ast.Assign) and isinstance(n.value, ast.Name) and n.value.id == pname and any(isinstance(t, ast.Attribute) for t in n.targets)
                    mutated = (isinstance(n, ast.Call) and isinstance(n.func, ast.Attribute) and isinstance(n.func.value, ast.Name) and n.func.value.id == pname
                               and n.func.attr in ("update", "append", "extend", "add", "setdefault", "pop", "clear", "insert"))
                    sub = isinstance(n, (ast.Assign, ast.AugAssign)) and any(isinstance(t, ast.Subscript) and isinstance(t.value, ast.Name) and t.value.id == pname
                                                                              for t in (n.targets if isinstance(n, ast.Assign) else [n.target]))
                    if stored or mutated or sub:
                        bad.append("%s:%d %s(%s=<mutable default>) is %s" % (os.path.relpath(path, REPO), n.lineno, fn.name, pname,
                                                                                "stored into an attribute" if stored else "mutated"))
                        break
# class-level mutable attributes that instances mutate through self: one object shared by all instances
cbad = []
for d, _, fs in os.walk(os.path.join(REPO, "func_adl_xAOD")):
    for f in fs:
        if not f.endswith(".py") or os.sep + "template" + os.sep in os.path.join(d, f):
            continue
        path = os.path.join(d, f)
        tree = ast.parse(open(path, encoding="utf-8").read())
        for cl in [n for n in ast.walk(tree) if isinstance(n, ast.ClassDef)]:
            if any((isinstance(dc, ast.Name) and dc.id == "dataclass") or (isinstance(dc, ast.Call) and getattr(dc.func, "id", "") == "dataclass") for dc in cl.decorator_list):
                continue
            for st in cl.body:
                tgt, val = None, None
                if isinstance(st, ast.Assign) and len(st.targets) == 1 and isinstance(st.targets[0], ast.Name):
                    tgt, val = st.targets[0].id, st.value
                elif isinstance(st, ast.AnnAssign) and isinstance(st.target, ast.Name) and st.value is not None:
                    tgt, val = st.target.id, st.value
                if tgt is None:
                    continue
                mutable = isinstance(val, (ast.Dict, ast.List, ast.Set)) or (isinstance(val, ast.Call) and isinstance(val.func, ast.Name) and val.func.id in ("dict", "list", "set", "defaultdict"))
                if not mutable:
                    continue
                rebound = any(isinstance(n, ast.Assign) and any(isinstance(t, ast.Attribute) and isinstance(t.value, ast.Name) and t.value.id == "self" and t.attr == tgt for t in n.targets)
                              for fn in cl.body if isinstance(fn, ast.FunctionDef) and fn.name == "__init__" for n in ast.walk(fn))
                if not rebound:
                    cbad.append("%s:%d class %s keeps the mutable class attribute %s, shared by all its instances" % (os.path.relpath(path, REPO), st.lineno, cl.name, tgt))
results.append(dict(name="C07/static:no_shared_mutable_class_attribute", kind="static", status="violation" if cbad else "ok", detail="; ".join(cbad), input=cbad or None))
results.append(dict(name="C07/static:no_shared_mutable_default", kind="static", status="violation" if bad else "ok",
                    detail="; ".join(bad), input=bad or None))
results.append(dict(name="C07/static:functions_scanned", kind="static", status="ok" if n_funcs > 100 else "undecided", detail="%d functions" % n_funcs))

# ---- bounded stand-in (labelled bounded, never counted as proved): histories of length <= 2 on the REAL translator -----------------------
# every history query H (metadata of each kind the executor keeps state for, succeeding or failing) followed by every metadata-free victim
# query Q, on the same executor and on a new one, for the three back ends: Q's package must equal the one Q gives in a fresh process
# (up to the numbering of generated names).  The deductive typestate argument above covers all histories; this covers the parts of the
# state the contracts leave to assumed callees (e.g. how the default method types are installed).
import re, subprocess, sys, tempfile
DRIVER = r"""
import ast, json, re, sys, tempfile, logging
from pathlib import Path
logging.disable(logging.CRITICAL)
from func_adl import EventDataset
class DS(EventDataset):
    async def execute_result_async(self, a, title):
        return a
def exe_for(b):
    if b == 'atlas':
        from func_adl_xAOD.atlas.xaod.executor import atlas_xaod_executor as E
    elif b == 'cms_aod':
        from func_adl_xAOD.cms.aod.executor import cms_aod_executor as E
    else:
        from func_adl_xAOD.cms.miniaod.executor import cms_miniaod_executor as E
    return E()
def norm(files):
    seen = {}
    def repl(m):
        t = m.group(0)
        if t not in seen:
            seen[t] = m.group(1) + '#' + str(len(seen))
        return seen[t]
    return {n: re.sub(r'\b([A-Za-z_]+?)(\d+)\b', repl, t) for n, t in sorted(files.items())}
def run(exe, q):
    try:
        with tempfile.TemporaryDirectory() as d:
            exe.write_cpp_files(exe.apply_ast_transformations(q), Path(d))
            return ['ok', norm({f.name: f.read_text() for f in sorted(Path(d).iterdir()) if f.is_file()})]
    except Exception as e:
        return ['error', type(e).__name__]
def build(spec):
    ds = DS()
    for md in spec.get('md', []):
        ds = ds.MetaData(md)
    ds = ds.SelectMany(spec['many']) if 'many' in spec else ds
    return ds.Select(spec['select']).value()
job = json.loads(sys.stdin.read())
out = []
for step in job['steps']:
    if step['op'] == 'new':
        exe = exe_for(job['backend'])
    else:
        out.append(run(exe, build(step['q'])))
print(json.dumps(out))
"""
COLL = {"atlas": "e.TruthParticles('T')", "cms_aod": "e.Tracks('globalMuons')", "cms_miniaod": "e.Muons('slimmedMuons')"}
TYPE = {"atlas": "xAOD::TruthParticle", "cms_aod": "reco::Track", "cms_miniaod": "pat::Muon"}


def victims(b):
    return [dict(many="lambda e: " + COLL[b], select="lambda p: {'pt': p.pt()}"),
            dict(many="lambda e: " + COLL[b], select="lambda p: {'v': p.parent(0).pt()}") if b == "atlas" else
            dict(many="lambda e: " + COLL[b], select="lambda p: {'v': p.eta() + p.pt()}")]


def histories(b):
    t = TYPE[b]
    sel = dict(many="lambda e: " + COLL[b], select="lambda p: {'pt': p.pt()}")
    return [
        ("declares method types", dict(sel, md=[dict(metadata_type="add_method_type_info", type_string=t, method_name="pt", return_type="int"),
                                                dict(metadata_type="add_method_type_info", type_string=t, method_name="parent", return_type="float"),
                                                dict(metadata_type="add_method_type_info", type_string=t, method_name="eta", return_type="int")])),
        ("declares method types, then fails", dict(many="lambda e: " + COLL[b], select="lambda p: {'pt': p.pt(), 'x': p.no_such.thing[1:2]}",
                                                  md=[dict(metadata_type="add_method_type_info", type_string=t, method_name="pt", return_type="int")])),
        ("injects code and a job script", dict(sel, md=[dict(metadata_type="inject_code", name="blk", body_includes=["a.h"], private_members=["int m;"]),
                                                         dict(metadata_type="add_job_script", name="s1", script=["# line"], depends_on=[])])),
        ("declares an enum and a function", dict(sel, md=[dict(metadata_type="define_enum", namespace="xAOD.Jet", name="Color", values=["Red", "Blue"]),
                                                           dict(metadata_type="add_cpp_function", name="pt", include_files=[], arguments=["x"], code=["auto result = x;"],
                                                                result_name="result", return_type="int")])),
    ]


def run_job(b, steps):
    env = dict(os.environ, PYTHONPATH=REPO + ":" + os.path.dirname(os.path.dirname(os.path.abspath(__file__))), PYTHONDONTWRITEBYTECODE="1")
    p = subprocess.run([sys.executable, "-c", DRIVER], input=json.dumps(dict(backend=b, steps=steps)), capture_output=True, text=True, env=env, timeout=600)
    return json.loads(p.stdout.strip().split("\n")[-1])


n_eval, bad_h, samples = 0, [], []
try:
    for b in ("atlas", "cms_aod", "cms_miniaod"):
        ref = [run_job(b, [dict(op="new"), dict(op="q", q=v)])[0] for v in victims(b)]
        for hname, h in histories(b):
            for same in (True, False):
                for k, v in enumerate(victims(b)):
                    got = run_job(b, [dict(op="new"), dict(op="q", q=h)] + ([] if same else [dict(op="new")]) + [dict(op="q", q=v)])[-1]
                    n_eval += 1
                    if got != ref[k]:
                        diff = ""
                        if got[0] == "ok" and ref[k][0] == "ok":
                            for fn in ref[k][1]:
                                for la, lb in zip(ref[k][1][fn].splitlines(), got[1].get(fn, "").splitlines()):
                                    if la != lb:
                                        diff = "%s: fresh `%s` / after history `%s`" % (fn, la.strip(), lb.strip())
                                        break
                                if diff:
                                    break
                        bad_h.append("%s: after a query that %s (%s executor), `%s` translates differently: %s" % (
                            b, hname, "same" if same else "new", v["select"], diff or "%s -> %s" % (ref[k][0], got[0])))
                    elif len(samples) < 3:
                        samples.append("%s / %s / %s executor / %s: identical" % (b, hname, "same" if same else "new", v["select"]))
    results.append(dict(name="C07/bounded:history_of_two", kind="bounded", status="violation" if bad_h else "ok", detail="; ".join(bad_h[:3]), input=bad_h[:5] or None,
                        bound="histories of length 2: 4 history queries (method types, method types + failure, inject/job script, enum + C++ function) x 2 victim queries "
                              "x {same, new executor} x 3 back ends, compared with a fresh process", evaluations=n_eval, exhaustive=True, samples=samples))
except Exception as e:  # the stand-in itself failed: decides nothing
    results.append(dict(name="C07/bounded:history_of_two", kind="bounded", status="undecided", detail="stand-in crashed: %r" % (e,)))
print(json.dumps(dict(results=results)))
