"""Replay of solver counterexamples against the real code (run under /venv/bin/python), and of known-finding witnesses."""
from __future__ import annotations
import json
import os
import subprocess
import z3
from .core import *
from .ops import truth, Unsupported, empty_dict, dict_set, coerce

ROOT = os.path.dirname(os.path.dirname(os.path.abspath(__file__)))
VENV_PY = "/venv/bin/python"


def value_level(s: Sort):
    if isinstance(s, (TIntS, TBoolS, TStrS, TAbs, TUnionS)):
        return True
    if isinstance(s, TKDict):
        return all(value_level(x) for x in s.keys.values())
    if isinstance(s, TUnionRec):
        return True  # decoded from the tag; generated only through pools
    if isinstance(s, (TList, TOpt)):
        return value_level(s.elem if isinstance(s, TList) else s.inner)
    if isinstance(s, TRec):
        return all(value_level(fs) for _, fs in s.fields)
    if isinstance(s, TDict):
        return value_level(s.k) and value_level(s.v)
    return False


def decode(m, t, s: Sort, depth=0):
    "model value of term t (sort s) -> typed json"
    ev = lambda x: m.eval(x, model_completion=True)
    if isinstance(s, TIntS):
        return {"t": "int", "v": ev(t).as_long()}
    if isinstance(s, TBoolS):
        return {"t": "bool", "v": z3.is_true(ev(t))}
    if isinstance(s, TStrS):
        return {"t": "str", "v": ev(t).as_string()}
    if isinstance(s, TAbs):
        return {"t": "str", "v": str(ev(t))}
    if isinstance(s, TList):
        n = ev(s.len(t)).as_long()
        if n > 50:
            raise Unsupported("model list too long")
        return {"t": "list", "v": [decode(m, z3.Select(s.arr(t), i), s.elem, depth + 1) for i in range(n)]}
    if isinstance(s, TOpt):
        if z3.is_true(ev(s.is_none(t))):
            return {"t": "none"}
        return decode(m, s.the(t), s.inner, depth + 1)
    if isinstance(s, TRec):
        return {"t": "rec", "cls": s.cls, "v": {f: decode(m, s.get(t, f), fs, depth + 1) for f, fs in s.fields}}
    if isinstance(s, TDict):
        n = ev(s.n(t)).as_long()
        items = []
        for i in range(n):
            k = z3.Select(s.keys(t), i)
            items.append([decode(m, k, s.k, depth + 1), decode(m, z3.Select(s.val(t), k), s.v, depth + 1)])
        return {"t": "dict", "v": items}
    raise Unsupported("decode %r" % (s,))


def from_typed(j, s: Sort):
    "typed json -> concrete Val of sort s"
    if isinstance(s, TUnionS):
        from .ops import coerce
        if j["t"] == "none":
            return coerce(VNone(), s)
        if j["t"] == "str":
            return coerce(VStr(j["v"]), s)
        if j["t"] == "bool":
            return coerce(VBool(bool(j["v"])), s)
        if j["t"] == "int":
            return coerce(VInt(int(j["v"])), s)
        raise Unsupported("union value %r" % (j,))
    if isinstance(s, TKDict):
        from .ops import default_term
        ts = []
        for f, fs in s.fields:
            if f.startswith("p_"):
                ts.append(z3.BoolVal(f[2:] in j["v"]))
            elif f.startswith("v_"):
                k = f[2:]
                ts.append(from_typed(j["v"][k], fs).t if k in j["v"] else default_term(fs))
            elif f == "other":
                ts.append(z3.BoolVal(any(k not in s.keys for k in j["v"])))
            else:
                oth = [k for k in j["v"] if k not in s.keys]
                ts.append(z3.StringVal(oth[0] if oth else "__none__"))
        return VRec(s.mk(*ts), s)
    if isinstance(s, TUnionRec):
        from .ops import coerce
        if j["t"] != "rec" or j["cls"] not in s.members:
            raise Unsupported("union member %r" % (j.get("cls"),))
        return coerce(from_typed(j, s.members[j["cls"]]), s)
    if isinstance(s, TIntS):
        return VInt(int(j["v"]))
    if isinstance(s, TBoolS):
        return VBool(bool(j["v"]))
    if isinstance(s, TStrS):
        return VStr(j["v"])
    if isinstance(s, TAbs):
        return VAbs(z3.Const("abs_" + s.nm + "_" + j["v"], s.z3()), s)
    if isinstance(s, TOpt):
        if j["t"] == "none":
            return VOpt(s.none(), s)
        return VOpt(s.some(from_typed(j, s.inner).t), s)
    if isinstance(s, TList):
        from .ops import lift_list
        items = [from_typed(x, s.elem) for x in j["v"]]
        return lift_list(VTuple(items, True), s)
    if isinstance(s, TRec):
        return VRec(s.mk(*[from_typed(j["v"][f], fs).t for f, fs in s.fields]), s)
    if isinstance(s, TDict):
        d = empty_dict(s)
        for k, v in j["v"]:
            d = dict_set(d, from_typed(k, s.k), from_typed(v, s.v))
        return d
    raise Unsupported("from_typed %r" % (s,))


def get_model(o, timeout_ms=30000):
    s = z3.Solver()
    s.set("timeout", timeout_ms)
    for a in o.axioms:
        s.add(a)
    for a in o.assumptions:
        s.add(a)
    s.add(z3.Not(o.goal))
    if s.check() == z3.sat:
        return s.model()
    return None


def call_real(qn, args, globs, repo_root):
    env = dict(os.environ, PYTHONPATH=repo_root + ":" + ROOT)
    p = subprocess.run([VENV_PY, os.path.join(ROOT, "pyvc", "replay_runner.py")], input=json.dumps(dict(qn=qn, args=args, globals=globs)),
                       capture_output=True, text=True, env=env, timeout=120)
    try:
        return json.loads(p.stdout.strip().split("\n")[-1])
    except Exception:
        return dict(outcome="error", detail=(p.stderr or p.stdout)[-1500:])


def try_replay(run, o):
    """-> (confirmed: bool, detail: str, inputs)"""
    c = o.contract
    ex = run.execs[c.qn]
    try:
        if driver_for(c, o):
            return custom_replay(run, o, c)
        if isinstance(c.replay, dict):
            return False, "no replay driver for this clause; solver output attached", None
        if not all(value_level(s) for s in c.params.values()):
            return False, "no generic replay for heap-shaped inputs; solver output attached", None
        m = get_model(o)
        if m is None:
            return False, "in-process model extraction failed (solver output attached)", None
        args = {}
        for p, so in c.params.items():
            # the symbolic parameter constant is named '<p>!N'
            consts = [d for d in m.decls() if d.name().split("!")[0] == p and d.arity() == 0]
            if consts:
                t = consts[0]()
            else:
                t = z3.FreshConst(so.z3(), p)
            args[p] = decode(m, t, so)
        logical = {}
        for p, so in (c.logical or {}).items():
            consts = [d for d in m.decls() if d.name().split("!")[0] == p and d.arity() == 0]
            t = consts[0]() if consts else z3.FreshConst(so.z3(), p)
            logical[p] = decode(m, t, so)
        globs = {}
        for g in c.modifies:
            if g.startswith("global:"):
                gq = g[7:]
                gs = run.reg.globals[gq]
                if value_level(gs):
                    t = z3.Const("G_" + gq, gs.z3())
                    globs[gq] = decode(m, t, gs)
        r = call_real(c.qn, args, globs, run.repo.root)
        if r.get("outcome") == "error":
            return False, "replay runner failed: " + r.get("detail", ""), args
        ok, detail = check_concrete(run, ex, c, args, globs, r, logical)
        return (not ok), detail, dict(args=args, globals=globs, logical=logical, observed=r)
    except Unsupported as e:
        return False, "replay not possible: %s" % e, None
    except Exception as e:  # replay must never turn into a checker crash
        return False, "replay crashed: %r" % (e,), None


def check_concrete(run, ex, c, args, globs, r, logical=None):
    "evaluate the contract on the concrete inputs and the observed outcome of the real function"
    from .sym import State
    from .sym_call import State_with_top
    st = State_with_top(ex.top0)
    env = {p: from_typed(args[p], so) for p, so in c.params.items()}
    for p, so in (c.logical or {}).items():
        env[p] = from_typed((logical or {})[p], so)
    for gq, j in globs.items():
        st.glob[gq] = from_typed(j, run.reg.globals[gq])
    pre = st.copy()
    pre.env = dict(env)
    post = st.copy()
    for gq, j in (r.get("globals_after") or {}).items():
        if gq in run.reg.globals:
            post.glob[gq] = from_typed(j, run.reg.globals[gq])

    def holds(expr, s, e, pre_):
        g = truth(ex.eval_spec(expr, s, e, pre_, c.module))
        from .ops import DEFAULT_AXIOMS
        sol = z3.Solver()
        sol.set("timeout", 20000)
        for a in list(DEFAULT_AXIOMS) + list(ex.axioms):
            sol.add(a)
        for a in s.pc:
            sol.add(a)
        sol.add(z3.Not(g))
        return sol.check() == z3.unsat

    if r["outcome"] == "raise":
        exc = r["exc"]
        mro = r.get("mro", [exc])
        for e_, cond in c.raises_only_if.items():
            if e_ in mro and not holds(cond, pre.copy(), env, None):
                return False, "real function raised %s on an input where the contract's raises_only_if condition is false" % exc
        for e_, cond in c.raises.items():
            if e_ in mro:
                if not c.strict or holds(cond, pre.copy(), env, None):
                    return True, "raised %s as the contract allows" % exc
                return False, "real function raised %s on an input where the contract's raise condition is false" % exc
        if any(e_ in mro for e_ in c.may_raise):
            return True, "may raise"
        return False, "real function raised %s, which the contract does not allow" % exc
    for e_, cond in c.raises.items():
        if holds(cond, pre.copy(), env, None):
            return False, "real function returned normally where the contract requires %s" % e_
    if c.result is not None:
        try:
            env2 = dict(env, result=from_typed(r["value"], c.result))
        except Exception as e:
            return False, "result of the real function has an unexpected shape: %r" % (r.get("value"),)
    else:
        env2 = dict(env)
    # locals / ghost state mentioned as final_<x> are not observable from outside: existentially quantified
    finals = set()
    for lab, exx in c.ensures:
        finals.update(_re.findall(r"final_(\w+)", exx))
    fenv = {}
    wf = post.copy()
    for f in finals:
        so = (c.local_sorts or {}).get(f) or (getattr(c, "ghost_sorts", None) or {}).get(f)
        if so is None:
            return True, "ensures mention final_%s whose sort is not declared: not checkable concretely" % f
        v = fresh(so, "ex_" + f)
        ex.assume_wf(wf, v, nullable=True)
        fenv["final_" + f] = v
    env2.update(fenv)
    if not finals:
        for lab, exx in c.ensures:
            if not holds(exx, post.copy(), env2, pre):
                return False, "ensures '%s' is false on the real function's result %s" % (lab, json.dumps(r.get("value"))[:300])
        return True, "contract holds on the concrete run (counter-model was spurious)"
    sol = z3.Solver()
    sol.set("timeout", 20000)
    for a in ex.axioms:
        sol.add(a)
    s3 = wf.copy()
    for lab, exx in c.ensures:
        sol.add(truth(ex.eval_spec(exx, s3, env2, pre, c.module)))
    for a in s3.pc:
        sol.add(a)
    rr = sol.check()
    if rr == z3.unsat:
        return False, "no ghost witness satisfies the ensures on the real function's result %s" % (json.dumps(r.get("value"))[:300])
    return True, "contract holds on the concrete run (%s)" % rr


def driver_for(c, o):
    "contract.replay is a driver name (all clauses of the contract) or {clause label: driver name} (only those clauses)"
    if not c.replay:
        return None
    if isinstance(c.replay, dict):
        return c.replay.get(o.name.split(":", 1)[1].split("@")[0]) if ":" in o.name else None
    return c.replay


def custom_replay(run, o, c):
    m = get_model(o) if getattr(o, "result", None) == "sat" else None
    model = {}
    if m is not None:
        for d in m.decls():
            if d.arity() == 0:
                try:
                    v = m[d]
                    model[d.name()] = v.as_long() if z3.is_int_value(v) else v.as_string() if z3.is_string_value(v) else str(v)
                except Exception:
                    pass
    drv = driver_for(c, o)
    k = dict(witness=dict(driver=drv, args=dict(model=model, obligation=o.name)))
    still, detail = run_witness(k, repo_root=run.repo.root)
    if still is None:
        return False, "custom replay failed: " + detail, None
    return bool(still), detail, dict(driver=drv)


def run_witness(k, repo_root=None):
    """run a known-finding / regression witness through /verif/replay_drivers.py under the repo interpreter.
    -> (still_fails: bool|None, detail)"""
    w = k.get("witness")
    if not w:
        return None, "no witness"
    repo_root = repo_root or os.environ.get("PYVC_REPO", "/repo")
    env = dict(os.environ, PYTHONPATH=repo_root + ":" + ROOT + ":" + os.path.join(ROOT, "stubs"))
    p = subprocess.run([VENV_PY, os.path.join(ROOT, "replay_drivers.py"), w["driver"], json.dumps(w.get("args", {}))],
                       capture_output=True, text=True, env=env, timeout=300, cwd=ROOT)
    try:
        r = json.loads(p.stdout.strip().split("\n")[-1])
        return r["violates"], r.get("detail", "")
    except Exception:
        return None, (p.stderr or p.stdout)[-800:]


# ---------------------------------------------------------------- bounded concrete search on the REAL function
import random
import re as _re

STR_POOL = ["", "a", "b", "int", "a*", " a * ", "const a", "a b", "x.y", "*"]
ABS_POOL = ["A", "B", "C"]


def gen_value(s: Sort, rnd, pools, depth=0, name=None):
    if name is not None and name in pools:
        return rnd.choice(pools[name])
    if isinstance(s, TUnionS):
        return rnd.choice([{"t": "int", "v": rnd.choice([0, 1, 2])}, {"t": "str", "v": rnd.choice(["0", "1", "x"])}])
    if isinstance(s, TKDict):
        shapes = pools.get("kdict_shapes")
        if shapes:
            shape = rnd.choice(shapes)  # (fixed items dict, optional keys list)
            v = {k: x for k, x in shape[0].items()}
            for k in shape[1]:
                if rnd.random() < 0.5:
                    v[k] = gen_value(s.keys[k], rnd, pools, depth + 1, name="MD." + k) if k in s.keys else {"t": "str", "v": "zzz"}
            for k in shape[2] if len(shape) > 2 else []:
                v[k] = gen_value(s.keys[k], rnd, pools, depth + 1, name="MD." + k)
            return {"t": "kdict", "v": v}
        v = {}
        for k, so in s.keys.items():
            if rnd.random() < 0.3:
                v[k] = gen_value(so, rnd, pools, depth + 1, name="MD." + k)
        return {"t": "kdict", "v": v}
    if isinstance(s, TIntS):
        return {"t": "int", "v": rnd.choice(pools.get("int", [-1, 0, 1, 2, 3]))}
    if isinstance(s, TBoolS):
        return {"t": "bool", "v": rnd.random() < 0.5}
    if isinstance(s, TStrS):
        return {"t": "str", "v": rnd.choice(pools.get("str", STR_POOL))}
    if isinstance(s, TAbs):
        return {"t": "str", "v": rnd.choice(pools.get(s.nm, ABS_POOL))}
    if isinstance(s, TOpt):
        if rnd.random() < 0.3:
            return {"t": "none"}
        return gen_value(s.inner, rnd, pools, depth + 1)
    if isinstance(s, TList):
        n = rnd.choice(pools.get("len", [0, 1, 1, 2, 2, 3]))
        return {"t": "list", "v": [gen_value(s.elem, rnd, pools, depth + 1) for _ in range(n)]}
    if isinstance(s, TRec):
        return {"t": "rec", "cls": s.cls, "v": {f: gen_value(fs, rnd, pools, depth + 1, name=s.nm + "." + f) for f, fs in s.fields}}
    if isinstance(s, TDict):
        n = rnd.choice([0, 1, 2])
        items, seen = [], set()
        for _ in range(n):
            k = gen_value(s.k, rnd, pools, depth + 1)
            kk = json.dumps(k)
            if kk in seen:
                continue
            seen.add(kk)
            items.append([k, gen_value(s.v, rnd, pools, depth + 1)])
        return {"t": "dict", "v": items}
    raise Unsupported("gen %r" % (s,))


def concrete_search(run, c, ex, n_cases, seed):
    """run the REAL function on n_cases generated inputs that satisfy `requires`; check the contract (or the
    contract's executable oracle) on each outcome.  -> (found, detail, inputs, evaluated)"""
    if not all(value_level(s) for s in c.params.values()):
        return False, "no bounded search for heap-shaped inputs", None, 0
    import zlib
    rnd = random.Random(seed * 7919 + zlib.crc32(c.qn.encode()) % 1000)  # (str hashes are randomised per process: not reproducible)
    pools = getattr(c, "pools", None) or {}
    cases = []
    seen = set()
    tries = 0
    gl = [g[7:] for g in c.modifies if g.startswith("global:") and value_level(run.reg.globals[g[7:]])]
    while len(cases) < n_cases and tries < n_cases * 5:
        tries += 1
        logical = {p: gen_value(so, rnd, pools, name=p) for p, so in (c.logical or {}).items()}
        if c.logical:
            args = solve_params(run, ex, c, logical)
            if args is None:
                continue
        else:
            args = {p: gen_value(so, rnd, pools, name=p) for p, so in c.params.items()}
        globs = {g: gen_value(run.reg.globals[g], rnd, pools, name=g.split(".")[-1]) for g in gl}
        key = json.dumps([args, globs], sort_keys=True)
        if key in seen:
            continue
        seen.add(key)
        cases.append(dict(args=args, globals=globs, logical=logical))
    req = dict(qn=c.qn, cases=cases)
    oracle = getattr(c, "oracle", None)
    if oracle:
        req.update(oracle=oracle, oracle_file=os.path.join(ROOT, "oracles.py"))
    env = dict(os.environ, PYTHONPATH=run.repo.root + ":" + ROOT)
    p = subprocess.run([VENV_PY, os.path.join(ROOT, "pyvc", "replay_runner.py")], input=json.dumps(req), capture_output=True,
                       text=True, env=env, timeout=600)
    try:
        outs = json.loads(p.stdout.strip().split("\n")[-1])
    except Exception:
        return False, "bounded search runner failed: " + (p.stderr or p.stdout)[-500:], None, 0
    evaluated = 0
    import time as _t
    deadline = _t.time() + (120 if n_cases <= 200 else 900)
    for case, r in zip(cases, outs):
        if _t.time() > deadline:
            break
        if r.get("outcome") == "error":
            continue
        try:
            if not requires_hold(run, ex, c, case["args"], case["globals"], case.get("logical")):
                continue
            evaluated += 1
            if oracle:
                if r.get("oracle_ok") is False:
                    return True, "oracle %s: %s" % (oracle, r.get("oracle_detail")), dict(args=case["args"], globals=case["globals"], observed=r), evaluated
                continue
            ok, detail = check_concrete(run, ex, c, case["args"], case["globals"], r, case.get("logical"))
            if not ok:
                return True, detail, dict(args=case["args"], globals=case["globals"], logical=case.get("logical"), observed=r), evaluated
        except Unsupported:
            continue
    return False, "no failing input among %d generated inputs" % evaluated, None, evaluated


def solve_params(run, ex, c, logical):
    "theorem contracts: choose the logical variables, then let the solver pick parameters that satisfy `requires`"
    from .sym_call import State_with_top
    st = State_with_top(ex.top0)
    env = {p: from_typed(logical[p], so) for p, so in c.logical.items()}
    ps = {}
    for p, so in c.params.items():
        ps[p] = fresh(so, "sp_" + p)
        env[p] = ps[p]
    sol = z3.Solver()
    sol.set("timeout", 5000)
    from .ops import DEFAULT_AXIOMS
    for a in list(DEFAULT_AXIOMS) + list(ex.axioms):
        sol.add(a)
    for lab, exx in c.requires:
        sol.add(truth(ex.eval_spec(exx, st, env, None, c.module)))
    for a in st.pc:
        sol.add(a)
    if sol.check() != z3.sat:
        return None
    m = sol.model()
    try:
        return {p: decode(m, ps[p].t, so) for p, so in c.params.items()}
    except Exception:
        return None


def requires_hold(run, ex, c, args, globs, logical=None):
    from .sym_call import State_with_top
    from .ops import DEFAULT_AXIOMS
    st = State_with_top(ex.top0)
    env = {p: from_typed(args[p], so) for p, so in c.params.items()}
    for p, so in (c.logical or {}).items():
        env[p] = from_typed((logical or {})[p], so)
    for gq, j in globs.items():
        st.glob[gq] = from_typed(j, run.reg.globals[gq])
    for lab, exx in c.requires:
        g = truth(ex.eval_spec(exx, st, env, None, c.module))
        sol = z3.Solver()
        sol.set("timeout", 5000)
        for a in list(DEFAULT_AXIOMS) + list(ex.axioms):
            sol.add(a)
        for a in st.pc:
            sol.add(a)
        sol.add(z3.Not(g))
        if sol.check() != z3.unsat:
            return False
    return True
