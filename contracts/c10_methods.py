# C10 -- the method-type registry and its use at member calls (declared return type, declared extra dereference).
CTQ = "func_adl_xAOD.common.cpp_types."
GMT = "func_adl_xAOD.common.cpp_types.g_method_type_dict"
COLL = CTQ + "collection"


def declared(t, m):
    return t in g_method_type_dict and m in g_method_type_dict[t]


contract(CTQ + "add_method_type_info", props=["C10"],
         params=dict(type_string=Str, method_name=Str, t=TERM, deref_depth=Int), defaults={"deref_depth": "0"},
         modifies=["global:" + GMT],
         ensures=[("declared_as_given", "declared(type_string, method_name) and g_method_type_dict[type_string][method_name].r_type == t and "
                                        "g_method_type_dict[type_string][method_name].deref_depth == deref_depth"),
                  ("other_types_untouched", "forall(Str, lambda ty: implies(ty != type_string, (ty in g_method_type_dict) == (ty in old(g_method_type_dict)) and "
                                            "implies(ty in g_method_type_dict, g_method_type_dict[ty] == old(g_method_type_dict)[ty])))"),
                  ("other_methods_untouched", "forall(Str, lambda m: implies(m != method_name and type_string in old(g_method_type_dict), "
                                              "(m in g_method_type_dict[type_string]) == (m in old(g_method_type_dict)[type_string]) and "
                                              "implies(m in g_method_type_dict[type_string], g_method_type_dict[type_string][m] == old(g_method_type_dict)[type_string][m])))")])

contract(CTQ + "method_type_info", props=["C10"], params=dict(type_string=Str, method_name=Str), result=TOpt(MethodInvokeInfo),
         ensures=[("lookup", "(result != None) == declared(type_string, method_name) and "
                             "implies(declared(type_string, method_name), result == g_method_type_dict[type_string][method_name])"),
                  ("read_only", "g_method_type_dict == old(g_method_type_dict)")])

contract(TR + "determine_type_mf", props=["C10", "C09"], params=dict(parent_type=TERM, function_name=Str), result=MethodInvokeInfo,
         requires=["parent_type == None or live(parent_type)"],
         modifies=["alloc"],
         raises={"RuntimeError": "parent_type == None",
                 "xAODTranslationError": "parent_type != None and not declared(type_name_of(parent_type), function_name) and "
                                         "(type_name_of(parent_type) == 'double' or type_name_of(parent_type) == 'float' or type_name_of(parent_type) == 'int')"},
         ensures=[("declared_type_honoured", "implies(declared(type_name_of(parent_type), function_name), "
                                             "result == g_method_type_dict[type_name_of(parent_type)][function_name])"),
                  ("undeclared_defaults_to_double", "implies(not declared(type_name_of(parent_type), function_name), is_new(result.r_type) and "
                                                    "field(result.r_type, '_type', '" + CTQ + "terminal') == 'double' and field(result.r_type, '_p_depth') == 0 and "
                                                    "result.deref_depth == 0)"),
                  ("registry_untouched", "g_method_type_dict == old(g_method_type_dict)")])


def type_name_of(t):
    return field(t, "_type", "func_adl_xAOD.common.cpp_types.terminal")


# ---- obj.m(): the declared return type and the declared extra dereference are what the emitted call uses (argument-free calls;
# calls with arguments join the argument texts through a generator expression and stay under the common visitor contract)
CALLN = RefOf("ast.Call")
contract(TR + "query_ast_visitor.visit_Call_Member#no_arguments", props=["C10", "C09"],
         params=dict(self=QV, call_node=CALLN),
         requires=CVC_REQUIRES + [("member_call", "field(call_node, 'func') != None and live(field(call_node, 'func')) and isinst(field(call_node, 'func'), 'ast.Attribute') and "
                                                 "field(field(call_node, 'func'), 'value', 'ast.Attribute') != None and live(field(field(call_node, 'func'), 'value', 'ast.Attribute'))"),
                                  ("no_arguments", "len(field(call_node, 'args')) == 0")],
         modifies=CVC_MODIFIES + ["_type", "_p_depth", "_is_const", "_tree_type", "_expression", "_scope", "_cpp_type"],
         may_raise=["Exception"], strict=False,
         local_sorts=dict(calling_against=VAL, m_info=MethodInvokeInfo, g_decl=Bool, g_info=MethodInvokeInfo, g_depth=Int, g_expr=Str),
         ghost_init=["g_decl = False", "g_info = any_value(MethodInvokeInfo)", "g_depth = 0", "g_expr = ''"],
         ghost={"after:function_name = call_node.func.attr": [
             "g_decl = declared(kind_of(calling_against), field(field(call_node, 'func'), 'attr'))",
             "g_info = g_method_type_dict[kind_of(calling_against)][field(field(call_node, 'func'), 'attr')]",
             "g_depth = field(type_of(calling_against), '_p_depth')", "g_expr = expr_of(calling_against)"]},
         ensures=CVC_ENSURES + [
             ("has_rep", "rep_of(call_node) != None and is_new(rep_of(call_node)) and isinst(rep_of(call_node), '" + P + "cpp_representation.cpp_value')"),
             ("declared_return_type_honoured@C10", "implies(final_g_decl, type_of(rep_of(call_node)) == final_g_info.r_type)"),
             ("collections_are_collections@C10", "implies(final_g_decl, cls_is(rep_of(call_node), '" + P + "cpp_representation.cpp_collection') == "
                                                 "isinst(final_g_info.r_type, '" + COLL + "'))"),
             ("access_path_uses_total_indirection@C10", "implies(final_g_decl and final_g_depth >= 0 and final_g_info.deref_depth >= 0, expr_of(rep_of(call_node)) == "
                                                        "member_access(final_g_expr, final_g_info.deref_depth + final_g_depth) + field(field(call_node, 'func'), 'attr') + '()')"),
             ("undeclared_is_a_double_value@C10", "implies(not final_g_decl, kind_of(rep_of(call_node)) == 'double' and "
                                                  "expr_of(rep_of(call_node)) == member_access(final_g_expr, final_g_depth) + field(field(call_node, 'func'), 'attr') + '()')"),
             ("valid_where_the_object_is@C01", "scope_of(rep_of(call_node)) == scope_of(final_calling_against)"),
         ])
