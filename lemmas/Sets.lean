/-
Lemmas used (transcribed by hand into single SMT implications) by pyvc's set encoding (mem : K → Bool, card : Int).
Checked on every `setup`-independent request with:  cd /opt/veriftools/mathlib4 && lake env lean /verif/lemmas/Sets.lean
-/
import Mathlib.Data.Finset.Card
import Mathlib.Data.Finset.Max

open Finset

/-- pigeonhole as used by C15's `generate_script_block` (the set of emitted names is contained in the set of
    known names and is at least as large, hence they are equal): `pigeonhole(set, dict)` in contracts. -/
theorem subset_card_le_eq {α : Type*} [DecidableEq α] (S K : Finset α) (h₁ : S ⊆ K) (h₂ : K.card ≤ S.card) : S = K :=
  Finset.eq_of_subset_of_card_le h₁ h₂

/-- a strict subset is strictly smaller: used for the loop variant (every pass emits at least one new block). -/
theorem ssubset_card_lt {α : Type*} [DecidableEq α] (S K : Finset α) (h : S ⊂ K) : S.card < K.card :=
  Finset.card_lt_card h

/-- inserting a new element grows the cardinality by one (set.add of an absent key). -/
theorem card_insert_new {α : Type*} [DecidableEq α] (S : Finset α) (a : α) (h : a ∉ S) : (insert a S).card = S.card + 1 :=
  Finset.card_insert_of_notMem h
