# Heap schema, value records and module-level state of func_adl_xAOD as seen by the verifier.
# Sidecar file: nothing here is imported from /repo; field names are checked against the class sources at bind time.

P = "func_adl_xAOD.common."

# ---------------------------------------------------------------- value records (dataclasses: == is field-wise)
Line = TAbs("Line")      # a script / code line only ever compared for equality
Name = TAbs("Name")      # a block name only ever compared for equality / used as dict key

CPPParsedTypeInfo = record(P + "cpp_types.CPPParsedTypeInfo",
                           TRec("CPPParsedTypeInfo", [("name", Str), ("pointer_depth", Int), ("is_const", Bool)]))

InjectCodeBlock = record(P + "meta_data.InjectCodeBlock",
                         TRec("InjectCodeBlock", [("name", Str), ("body_includes", TList(Str)), ("header_includes", TList(Str)),
                                                  ("private_members", TList(Str)), ("instance_initialization", TList(Str)),
                                                  ("ctor_lines", TList(Str)), ("initialize_lines", TList(Str)),
                                                  ("link_libraries", TList(Str))]))

JobScriptSpecification = record(P + "meta_data.JobScriptSpecification",
                                TRec("JobScriptSpecification", [("name", Name), ("script", TList(Line)), ("depends_on", TList(Name))]))

MethodInvokeInfo = record(P + "cpp_types.MethodInvokeInfo",
                          TRec("MethodInvokeInfo", [("r_type", RefOf(P + "cpp_types.terminal")), ("deref_depth", Int)]))

# ---------------------------------------------------------------- heap fields (Burstall-Bornat: one array per field name)
T = P + "cpp_types.terminal"
field("_type", Str)
field("_p_depth", Int)
field("_is_const", Bool)
field("_tree_type", TOpt(Str))
field("_element_type", RefOf(T))

CV = P + "cpp_representation.cpp_value"
field("_expression", Str)
field("_scope", Ref)
field("_cpp_type", RefOf(T))
field("_initial_value", RefOf(CV))

# ---------------------------------------------------------------- module state
glob(P + "cpp_vars.unique_var_index", Int)
glob(P + "cpp_types.g_method_type_dict", TDict(Str, TDict(Str, MethodInvokeInfo)))
