# C09 / C10 / C01 -- calls: nothing asked for is dropped; lambda calls bind every argument in a frame that is gone on every exit
contract(TR + "query_ast_visitor.visit_Call_Member", props=["C09", "C10"], replay={"nothing_asked_for_is_dropped": "dropped_call_arguments"},
         params=dict(self=QV, call_node=CALLN),
         requires=CVC_REQUIRES + [("member_call", "field(call_node, 'func') != None and live(field(call_node, 'func')) and isinst(field(call_node, 'func'), 'ast.Attribute') and "
                                                 "field(field(call_node, 'func'), 'value', 'ast.Attribute') != None and live(field(field(call_node, 'func'), 'value', 'ast.Attribute'))"),
                                  ("arguments", "all(a != None and live(a) for a in field(call_node, 'args'))")],
         modifies=CVC_MODIFIES + ["_type", "_p_depth", "_is_const", "_tree_type", "_expression", "_scope", "_cpp_type"],
         may_raise=["Exception"], strict=False,
         loops={"comp1": dict(sorts={"_comp1": TList(Str)}, modifies=CVC_MODIFIES, invariant=CVC_LOOP_INV + [("L.len", "len(_comp1) == _i")])},
         ensures=CVC_ENSURES + [
             ("has_rep", "rep_of(call_node) != None and is_new(rep_of(call_node)) and isinst(rep_of(call_node), '" + P + "cpp_representation.cpp_value')"),
             ("nothing_asked_for_is_dropped@C09", "len(field(call_node, 'keywords')) == 0"),
         ])
# ---- (lambda x, ...: body)(a, ...): every argument is bound, by position, in a new frame that is gone on every exit -----------------------------
SFC = external_class("func_adl.ast.call_stack.stack_frame")
ghost("arg_frames", Int)   # depth of the translator's lambda-argument stack (func_adl argument_stack)
contract("func_adl.ast.call_stack.stack_frame", assumed=True, params=dict(arg_stack=Ref), result=RefOf(SFC), fresh_result=True, modifies=["alloc"],
         ensures=["result != None"], note="func_adl: context manager that pushes a frame on the argument stack and pops it on every exit")
contract("func_adl.ast.call_stack.stack_frame.__enter__", assumed=True, params=dict(self=RefOf(SFC)), modifies=["ghost:arg_frames"],
         ensures=["arg_frames == old(arg_frames) + 1"])
contract("func_adl.ast.call_stack.stack_frame.__exit__", assumed=True, params=dict(self=RefOf(SFC), type=Ref, value=Ref, traceback=Ref), modifies=["ghost:arg_frames"],
         ensures=["arg_frames == old(arg_frames) - 1"])
contract("func_adl.ast.call_stack.argument_stack.define_name", assumed=True, params=dict(self=RefOf(ARGSTACK), name=Str, val=Ref),
         note="func_adl: binds the name in the innermost frame")
contract(TR + "query_ast_visitor.visit_Call_Lambda", props=["C09", "C01"],
         params=dict(self=QV, call_node=CALLN),
         requires=CVC_REQUIRES + [("lambda_call", "field(call_node, 'func') != None and live(field(call_node, 'func')) and "
                                                 "implies(isinst(field(call_node, 'func'), 'ast.Lambda'), field(field(call_node, 'func'), 'args', 'ast.Lambda') != None and "
                                                 "live(field(field(call_node, 'func'), 'args', 'ast.Lambda')) and field(field(call_node, 'func'), 'body', 'ast.Lambda') != None and "
                                                 "live(field(field(call_node, 'func'), 'body', 'ast.Lambda')))")],
         modifies=CVC_MODIFIES + ["ghost:arg_frames"], may_raise=["Exception"], strict=False,
         raises={"AssertionError": "not isinst(field(call_node, 'func'), 'ast.Lambda')"},
         ensures=CVC_ENSURES + [
             ("value_of_the_body@C01", "rep_of(call_node) != None and rep_of(call_node) == rep_of(field(field(call_node, 'func'), 'body', 'ast.Lambda'))"),
             ("frame_popped", "arg_frames == old(arg_frames)"),
         ],
         ensures_raise={"*": [("frame_popped_on_failure@C09", "arg_frames == old(arg_frames)")]},
         loops={1: dict(modifies=[], invariant=[("L.depth", "arg_frames == old(arg_frames) + 1")])})
# ---- obj[i]: bounds-checked element access on a collection, typed with the declared element type; anything else is refused ------------
COLLV = P + "cpp_representation.cpp_collection"
contract(TR + "query_ast_visitor.visit_Subscript", props=["C04", "C10", "C09"],
         params=dict(self=QV, node=RefOf("ast.Subscript")),
         requires=CVC_REQUIRES + [("parts", "field(node, 'value') != None and live(field(node, 'value')) and field(node, 'slice') != None and live(field(node, 'slice'))")],
         modifies=CVC_MODIFIES + ["_expression", "_scope", "_cpp_type"], may_raise=["Exception"], strict=False,
         local_sorts=dict(v=REP, index=REP, g_ix=Str), ghost_init=["g_ix = ''"],
         ghost={"after:index = self.get_rep(node.slice)": ["g_ix = expr_text(index)"]},
         ensures=CVC_ENSURES + [
             ("only_collections_are_indexed@C09,C10", "isinst(final_v, '" + COLLV + "')"),
             ("bounds_checked_access@C04", "rep_of(node) != None and is_new(rep_of(node)) and cls_is(rep_of(node), '" + CVAL + "') and "
                                           "implies(field(type_of(final_v), '_p_depth') >= 0, expr_of(rep_of(node)) == "
                                           "member_access(expr_of(final_v), field(type_of(final_v), '_p_depth')) + 'at(' + final_g_ix + ')')"),
             ("element_type_as_declared@C10", "type_of(rep_of(node)) == field(type_of(final_v), '_element_type')"),
             ("valid_here@C01", "seq_eq(stack_of(scope_of(rep_of(node))), cursor(self))"),
         ])


def expr_text(r):
    "C++ text of a value representation (as_cpp)"
    return field(r, "_expression", "func_adl_xAOD.common.cpp_representation.cpp_value")
# ---- obj.member / namespace.enum.value -----------------------------------------------------------------------------------------------
NSI = "func_adl_xAOD.common.cpp_types.NameSpaceInfo"
ENI = "func_adl_xAOD.common.cpp_types.ENumInfo"
field("_ns", RefOf(NSI))
field("_enum", RefOf(ENI))
field("ns_name", Str)
field("names_spaces", TDict(Str, RefOf(NSI)))
field("enums", TDict(Str, RefOf(ENI)))
field("parent_ns", RefOf(NSI))
field("name", Str, cls=ENI)
field("values", TList(Str), cls=ENI)
field("ns", RefOf(NSI), cls=ENI)
uninterpreted("ns_text", [Ref], Str)
contract(NSI + ".full_name", assumed=True, pure_fn="ns_text", params=dict(self=RefOf(NSI)), result=Str,
         note="DEFINITION of the ghost function ns_text: the dotted name of a namespace (recursive over parent_ns; namespace objects are not "
              "mutated after define_ns created them)")
CPPNS = P + "cpp_representation.cpp_namespace"
CPPEN = P + "cpp_representation.cpp_enum"
TEV = "func_adl_xAOD.common.cpp_types.terminal_enum_value"
contract(TR + "query_ast_visitor.visit_Attribute", props=["C10", "C09"],
         params=dict(self=QV, node=RefOf("ast.Attribute")),
         requires=CVC_REQUIRES + [("object", "field(node, 'value', 'ast.Attribute') != None and live(field(node, 'value', 'ast.Attribute'))")],
         modifies=CVC_MODIFIES + ["_expression", "_scope", "_cpp_type", "_type", "_p_depth", "_is_const", "_tree_type", "_ns", "_enum"],
         may_raise=["Exception"], strict=False,
         local_sorts=dict(obj=REP, m_info=MethodInvokeInfo, g_decl=Bool, g_info=MethodInvokeInfo, g_depth=Int, g_expr=Str),
         ghost_init=["g_decl = False", "g_info = any_value(MethodInvokeInfo)", "g_depth = 0", "g_expr = ''"],
         ghost={"after:m_info = determine_type_mf(": [
             "g_decl = declared(kind_of(obj), field(node, 'attr'))", "g_info = g_method_type_dict[kind_of(obj)][field(node, 'attr')]",
             "g_depth = field(type_of(obj), '_p_depth')", "g_expr = expr_of(obj)"]},
         ensures=CVC_ENSURES + [
             ("has_rep", "rep_of(node) != None and is_new(rep_of(node))"),
             ("member_of_an_enum_value_is_refused@C09,C10", "not (isinst(final_obj, '" + CVAL + "') and isinst(type_of(final_obj), '" + TEV + "'))"),
             ("declared_member_type_honoured@C10", "implies(isinst(final_obj, '" + CVAL + "') and final_g_decl, type_of(rep_of(node)) == final_g_info.r_type)"),
             ("access_path_uses_total_indirection@C10",
              "implies(isinst(final_obj, '" + CVAL + "') and final_g_decl and final_g_depth >= 0 and final_g_info.deref_depth >= 0, expr_of(rep_of(node)) == "
              "member_access(final_g_expr, final_g_info.deref_depth + final_g_depth) + field(node, 'attr'))"),
             ("undeclared_member_is_a_double@C10", "implies(isinst(final_obj, '" + CVAL + "') and not final_g_decl and final_g_depth >= 0, kind_of(rep_of(node)) == 'double' and "
                                                   "expr_of(rep_of(node)) == member_access(final_g_expr, final_g_depth) + field(node, 'attr'))"),
             ("namespace_member_is_a_declared_namespace_or_enum@C10,C09",
              "implies(isinst(final_obj, '" + CPPNS + "'), "
              "(cls_is(rep_of(node), '" + CPPNS + "') and field(node, 'attr') in field(field(final_obj, '_ns'), 'names_spaces') and "
              " field(rep_of(node), '_ns') == field(field(final_obj, '_ns'), 'names_spaces')[field(node, 'attr')]) or "
              "(cls_is(rep_of(node), '" + CPPEN + "') and field(node, 'attr') in field(field(final_obj, '_ns'), 'enums') and "
              " field(rep_of(node), '_enum') == field(field(final_obj, '_ns'), 'enums')[field(node, 'attr')]))"),
             ("enum_value_is_declared_and_fully_qualified@C10,C09",
              "implies(isinst(final_obj, '" + CPPEN + "'), contains(field(field(final_obj, '_enum'), 'values', '" + ENI + "'), field(node, 'attr')) and "
              "cls_is(rep_of(node), '" + CVAL + "') and isinst(type_of(rep_of(node)), '" + TEV + "') and "
              "expr_of(rep_of(node)) == replace(ns_text(field(field(final_obj, '_enum'), 'ns', '" + ENI + "')) + '::' + field(node, 'attr'), '.', '::'))"),
             ("anything_else_is_refused@C09", "isinst(final_obj, '" + CVAL + "') or isinst(final_obj, '" + CPPNS + "') or isinst(final_obj, '" + CPPEN + "')"),
         ])
# ---- tuples / lists / dicts: one representation per element, in order, evaluated without moving the cursor; ** splat refused -----------
TUPC = P + "cpp_representation.cpp_tuple"
DICTC = P + "cpp_representation.cpp_dict"
_TL_LOOP = {"comp1": dict(sorts={"_comp1": TList(REP)}, modifies=CVC_MODIFIES,
                          invariant=CVC_LOOP_INV + [("L.len", "len(_comp1) == _i"),
                                                    ("L.cursor", "seq_eq(cursor(self), old(cursor(self)))"),
                                                    ("L.values", "all(_comp1[k] != None and live(_comp1[k]) for k in range(0, _i))")])}
for _fn, _par, _cls in [("visit_Tuple", "tuple_node", "ast.Tuple"), ("visit_List", "list_node", "ast.List")]:
    contract(TR + "query_ast_visitor." + _fn, props=["C03", "C01"],
             params={"self": QV, _par: RefOf(_cls)},
             requires=CVC_REQUIRES + [("elements", "all(e != None and live(e) for e in field(" + _par + ", 'elts'))")],
             modifies=CVC_MODIFIES + ["_values@" + TUPC, "_scope"], may_raise=["Exception"], strict=False,
             ensures=CVC_ENSURES + [
                 ("one_value_per_element_in_order@C03", "rep_of(" + _par + ") != None and is_new(rep_of(" + _par + ")) and cls_is(rep_of(" + _par + "), '" + TUPC + "') and "
                                                        "len(field(rep_of(" + _par + "), '_values', '" + TUPC + "')) == len(field(" + _par + ", 'elts')) and "
                                                        "all(v != None and live(v) for v in field(rep_of(" + _par + "), '_values', '" + TUPC + "'))"),
                 ("cursor_kept@C01", "seq_eq(cursor(self), old(cursor(self)))"),
             ], loops=_TL_LOOP)

contract(TR + "query_ast_visitor.visit_Dict", props=["C03", "C09", "C01"],
         params=dict(self=QV, node=RefOf("ast.Dict")),
         requires=CVC_REQUIRES + [("values", "all(e != None and live(e) for e in field(node, 'values')) and len(field(node, 'keys')) == len(field(node, 'values'))")],
         modifies=CVC_MODIFIES + ["_values@" + DICTC, "_scope"], may_raise=["Exception"], strict=False,
         raises={"ValueError": "any(k == None for k in field(node, 'keys'))"},
         ensures=CVC_ENSURES + [
             ("dict_rep@C03", "rep_of(node) != None and is_new(rep_of(node)) and cls_is(rep_of(node), '" + DICTC + "')"),
             ("every_key_is_kept@C03", "all(k in field(rep_of(node), '_values', '" + DICTC + "') for k in field(node, 'keys'))"),
             ("cursor_kept@C01", "seq_eq(cursor(self), old(cursor(self)))"),
         ],
         loops={"comp2": dict(sorts={"_comp2": TDict(Ref, Ref)}, modifies=CVC_MODIFIES,
                              invariant=CVC_LOOP_INV + [("L.cursor", "seq_eq(cursor(self), old(cursor(self)))"),
                                                        ("L.keys", "all(field(node, 'keys')[j] in _comp2 for j in range(0, _i))")])})

# ---- names: a bound name stands for whatever it was bound to; an unbound one gets no representation (so get_rep refuses it) -------------
contract(TR + "query_ast_visitor.visit_Name", props=["C09", "C01"],
         params=dict(self=QV, name_node=RefOf("ast.Name")),
         requires=CVC_REQUIRES, modifies=CVC_MODIFIES, may_raise=["Exception"], strict=False,
         local_sorts=dict(id=Ref),
         ensures=CVC_ENSURES + [
             ("bound_name_stands_for_its_binding@C01", "implies(final_id != None, rep_of(name_node) != None and rep_of(name_node) == rep_of(final_id))"),
         ])

# ---- calls: dispatched by the kind of callee; an unknown callee without a representation is refused -------------------------------------
contract(TR + "query_ast_visitor.visit_Call", props=["C09"],
         params=dict(self=QV, call_node=CALLN),
         requires=CVC_REQUIRES + [("callee", "field(call_node, 'func') != None and live(field(call_node, 'func')) and all(a != None and live(a) for a in field(call_node, 'args'))")],
         modifies=CVC_MODIFIES + ["_type", "_p_depth", "_is_const", "_tree_type", "_expression", "_scope", "_cpp_type", "_initial_value", "_line", "_target", "_value",
                                 "ghost:arg_frames"],
         may_raise=["Exception"], strict=False,
         ensures=[("a_call_that_returns_has_a_value@C09", "rep_of(call_node) != None")])
# ---- the per-backend visitor factories: a new translator object and nothing else (the type registry a query declared is what it uses) ----
for _qn, _vis in [("func_adl_xAOD.atlas.xaod.executor.atlas_xaod_executor", "func_adl_xAOD.atlas.xaod.query_ast_visitor.atlas_xaod_query_ast_visitor"),
                  ("func_adl_xAOD.cms.aod.executor.cms_aod_executor", "func_adl_xAOD.cms.aod.query_ast_visitor.cms_aod_query_ast_visitor"),
                  ("func_adl_xAOD.cms.miniaod.executor.cms_miniaod_executor", "func_adl_xAOD.cms.miniaod.query_ast_visitor.cms_miniaod_query_ast_visitor")]:
    contract(_qn + ".get_visitor_obj", props=["C10", "C07"], params=dict(self=RefOf(_qn)), result=RefOf(_vis),
             replay={"declared_types_left_as_the_query_declared_them": "redeclared_default_method"} if "atlas" in _qn else None,
             modifies=["alloc", "_gc", "_arg_stack", "_prefix", "_block", "_book_block", "_class_vars", "_scope_stack", "_include_files", "_link_libraries",
                       "_statements", "_variables", "_rep_dict"],
             ensures=[("new_translator_of_this_backend", "result != None and is_new(result) and cls_is(result, '" + _vis + "')"),
                      ("declared_types_left_as_the_query_declared_them@C10,C07", "g_method_type_dict == old(g_method_type_dict)")])
contract("func_adl.ast.call_stack.argument_stack", assumed=True, params=dict(), result=RefOf(ARGSTACK), fresh_result=True, modifies=["alloc"],
         ensures=["result != None"], note="func_adl: a new, empty lambda-argument stack")
# ---- C09: two small refusal sites -----------------------------------------------------------------------------------------------------------
contract("func_adl_xAOD.atlas.xaod.jets.getAttribute", props=["C09"], params=dict(call_node=CALLN), raises={"RuntimeError": "True"},
         ensures=[("never_returns", "False")], note="the templated getAttribute cannot be expressed: every call is refused")
contract(EX + "_is_format_request", props=["C09", "C03"], params=dict(a=Ref), result=Bool,
         requires=["a != None and live(a)", "implies(isinst(a, 'ast.Call'), field(a, 'func') != None and live(field(a, 'func')))"],
         raises={"ValueError": "not isinst(a, 'ast.Call') or not isinst(field(a, 'func'), 'ast.Name')"},
         ensures=[("explicit_tree_request", "result == (field(field(a, 'func'), 'id') == 'ResultTTree')")])

# ---- get_as_ROOT: the final expression of a query that did not ask for a tree explicitly is written as one -----------------------------------
TTREEREP = "func_adl_xAOD.common.result_ttree.cpp_ttree_rep"
AMOD = external_class("ast.Module", ["ast.AST"])
AEXPR = external_class("ast.Expr", ["ast.AST"])
field("body", TList(RefOf(AEXPR)), cls=AMOD)
uninterpreted("literal_text", [Str], Str)   # ghost: the str a quoted python literal denotes
contract("ast.parse", assumed=True, params=dict(source=Str), result=RefOf(AMOD), fresh_result=True,
         modifies=["alloc", "body@" + AMOD, "value"],
         ensures=["result != None and len(field(result, 'body', '" + AMOD + "')) == 1 and is_new(field(result, 'body', '" + AMOD + "')[0]) and "
                  "cls_is(field(result, 'body', '" + AMOD + "')[0], '" + AEXPR + "') and is_new(field(field(result, 'body', '" + AMOD + "')[0], 'value')) and "
                  "cls_is(field(field(result, 'body', '" + AMOD + "')[0], 'value'), 'ast.Constant') and "
                  "field(field(field(result, 'body', '" + AMOD + "')[0], 'value'), 'value', 'ast.Constant').kind == K_STR and "
                  "field(field(field(result, 'body', '" + AMOD + "')[0], 'value'), 'value', 'ast.Constant').s == literal_text(source)"],
         note="ast.parse of a quoted string literal (the only use in this code base): a module with one expression statement holding that constant")
contract("func_adl.ast.func_adl_ast_utils.function_call", assumed=True, params=dict(function_name=Str, args=TList(Ref)), result=RefOf("ast.Call"), fresh_result=True,
         modifies=["alloc", "func", "args", "keywords", "id"],
         ensures=["result != None and is_new(field(result, 'func')) and cls_is(field(result, 'func'), 'ast.Name') and field(field(result, 'func'), 'id') == function_name and "
                  "seq_eq(field(result, 'args'), args) and len(field(result, 'keywords')) == 0"],
         note="func_adl: ast.Call(ast.Name(function_name), args, [])")


def const_text(n):
    return field(n, "value", "ast.Constant").s


contract(TR + "query_ast_visitor.get_as_ROOT", props=["C03", "C09"],
         params=dict(self=QV, node=Ref), result=RefOf(TTREEREP),
         requires=CVC_REQUIRES + [("node", "node != None and live(node)")],
         modifies=CVC_MODIFIES + ["body@" + AMOD, "value", "func", "args", "keywords", "id", "elts", "_values@" + TUPC, "_scope", "_sequence", "_iterator", "_node", "_type@" + SEQ_CLS],
         may_raise=["Exception"], strict=False,
         local_sorts=dict(r=REP, values=REP, ast_ttree=RefOf("ast.Call"), col_names=Ref, g_n=Int, g_m=Int, g_ok=Bool, g_dk=Bool),
         ghost_init=["g_n = 0", "g_m = 0 - 1", "g_ok = False", "g_dk = False"],
         ghost={"after:col_names = ast.List(elts=list(": [
                    "g_dk = seq_eq(field(col_names, 'elts'), dict_keys(field(values, '_values', '" + DICTC + "')))"],
                "after:col_names = ast.List(elts=[": [
             "g_n = len(field(col_names, 'elts'))", "g_m = len(field(values, '_values', '" + TUPC + "'))",
             "g_ok = all(const_text(field(col_names, 'elts')[k]) == literal_text(\"'col\" + str_from_int(k) + \"'\") for k in range(0, len(field(col_names, 'elts'))))"]},
         loops={"comp1": dict(sorts={"_comp1": TList(Ref)}, modifies=["alloc", "body@" + AMOD, "value"],
                              invariant=[("L.len", "len(_comp1) == _i"),
                                         ("L.names", "all(_comp1[k] != None and is_new(_comp1[k]) and cls_is(_comp1[k], 'ast.Constant') and "
                                                     "const_text(_comp1[k]) == literal_text(\"'col\" + str_from_int(k) + \"'\") for k in range(0, _i))")])},
         ensures=CVC_ENSURES + [
             ("an_explicit_tree_request_is_returned_as_it_is@C03", "implies(isinst(final_r, '" + TTREEREP + "'), result == final_r)"),
             ("anything_but_a_sequence_is_refused@C09", "isinst(final_r, '" + TTREEREP + "') or isinst(final_r, '" + SEQ_CLS + "')"),
             ("otherwise_written_through_ResultTTree@C03",
              "implies(not isinst(final_r, '" + TTREEREP + "'), final_ast_ttree != None and is_new(final_ast_ttree) and result == rep_of(final_ast_ttree) and "
              "field(field(final_ast_ttree, 'func'), 'id') == 'ResultTTree' and len(field(final_ast_ttree, 'args')) == 4 and field(final_ast_ttree, 'args')[0] == node and "
              "const_text(field(final_ast_ttree, 'args')[2]) == literal_text('\"' + field(self, '_prefix') + '_tree\"'))"),
             ("one_default_name_per_value@C03", "implies(not isinst(final_r, '" + TTREEREP + "') and isinst(final_values, '" + TUPC + "'), final_g_n == final_g_m)"),
             ("dict_keys_name_the_columns_in_order@C03", "implies(not isinst(final_r, '" + TTREEREP + "') and isinst(final_values, '" + DICTC + "'), final_g_dk)"),
             ("default_names_are_positional@C03", "implies(not isinst(final_r, '" + TTREEREP + "') and isinst(final_values, '" + TUPC + "'), final_g_ok)"),
         ])

# ---- small plumbing: a representation that must be a value, index nodes ---------------------------------------------------------------------------
contract(TR + "query_ast_visitor.get_rep_value", props=["C09", "C01"],
         params=dict(self=QV, node=Ref, retain_scope=Bool), result=VAL, defaults=dict(retain_scope="False"),
         requires=CVC_REQUIRES + [("node", "node != None")], modifies=CVC_MODIFIES, may_raise=["Exception"], strict=False,
         ensures=CVC_ENSURES + [("a_value_or_refused@C09", "result != None and live(result) and isinst(result, '" + CVAL + "') and field(node, 'rep') == result"),
                                ("retain_scope@C01", "implies(retain_scope, seq_eq(cursor(self), old(cursor(self))))")])
contract(TR + "query_ast_visitor.visit_Index", props=["C04", "C01"],
         params=dict(self=QV, node=RefOf("ast.Index")), requires=CVC_REQUIRES + [("value", "field(node, 'value') != None and live(field(node, 'value'))")],
         modifies=CVC_MODIFIES, may_raise=["Exception"], strict=False, local_sorts=dict(v=REP),
         ensures=CVC_ENSURES + [("index_is_its_value@C04", "rep_of(node) != None and rep_of(node) == final_v")])
