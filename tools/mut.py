#!/usr/bin/env python3
"""Development aid: apply one textual mutation to a scratch copy of /repo and run a check against it.
usage: mut.py <pid> <relative file> <old text> <new text> [only-filter]      (scratch copy under /tmp, removed afterwards)"""
import os, shutil, subprocess, sys, tempfile
ROOT = os.path.dirname(os.path.dirname(os.path.abspath(__file__)))
pid, rel, old, new = sys.argv[1:5]
only = sys.argv[5] if len(sys.argv) > 5 else ""
d = tempfile.mkdtemp(prefix="mut_", dir="/tmp")
try:
    subprocess.run(["rsync", "-a", "--exclude", ".git", "--exclude", "tests", "/repo/", d + "/"], check=True)
    p = os.path.join(d, rel)
    s = open(p).read()
    if s.count(old) != 1:
        sys.exit("old text occurs %d times" % s.count(old))
    open(p, "w").write(s.replace(old, new))
    env = dict(os.environ, PYVC_REPO=d)
    if only:
        env["PYVC_ONLY"] = only
    r = subprocess.run([os.path.join(ROOT, "check"), pid, "--tier", "quick"], env=env, cwd=ROOT, capture_output=True, text=True)
    print("\n".join(r.stdout.splitlines()[-12:]))
    print("exit", r.returncode)
finally:
    shutil.rmtree(d, ignore_errors=True)
