#!/usr/bin/env python3
"""Runs the seeded property-breaking changes of /verif/seeded/<id>/ against the checks.

For every seed (or the ones named on the command line):
  1. a scratch git worktree of /repo's HEAD is created under /tmp (outside /repo and /verif), the patch is applied there;
  2. the demonstration is run on /repo (must pass) and on the patched tree (must fail);
  3. with --tests the repository's own test suite is run on the patched tree (must still pass);
  4. ./check <property> --tier quick is run with PYVC_REPO=<patched tree>; exit code and VIOLATION lines are recorded;
  5. the worktree is removed.
Results go to seeded/<id>/meta.json (field "last_run") and, with --table, the table of DESIGN 9.6 is printed.

Never touches /repo's working tree.  Not a registered check: a development / self-test aid (DESIGN section 3).
"""
import json, os, re, subprocess, sys, time, shutil

ROOT = os.path.dirname(os.path.dirname(os.path.abspath(__file__)))
PY = "/venv/bin/python"


def sh(cmd, **kw):
    return subprocess.run(cmd, shell=isinstance(cmd, str), capture_output=True, text=True, **kw)


def run_seed(sid, tests=False, tier="quick", jobs=8):
    d = os.path.join(ROOT, "seeded", sid)
    meta_p = os.path.join(d, "meta.json")
    meta = json.load(open(meta_p)) if os.path.exists(meta_p) else {}
    pid = meta.get("property") or re.match(r"(C\d\d)", sid).group(1)
    demo = [f for f in os.listdir(d) if f.startswith("demo")][0]
    wt = "/tmp/seedwt_%s_%d" % (sid, os.getpid())
    sh(["git", "-C", "/repo", "worktree", "remove", "--force", wt])
    r = sh(["git", "-C", "/repo", "worktree", "add", "--detach", wt, "HEAD"])
    if r.returncode:
        raise SystemExit("worktree: " + r.stderr)
    out = dict(property=pid, seed=sid)
    try:
        # the demonstration is copied into the root of the tree it runs against (several demos put their own directory first on sys.path)
        shutil.copy(os.path.join(d, demo), os.path.join(wt, demo))
        env1 = dict(os.environ, PYTHONPATH=wt + ":" + os.path.join(ROOT, "stubs"), PYTHONDONTWRITEBYTECODE="1", SEED_REPO=wt)
        a = sh([PY, os.path.join(wt, demo)], env=env1, cwd=wt, timeout=900)
        r = sh(["git", "-C", wt, "apply", os.path.join(d, "patch.diff")])
        if r.returncode:  # /repo has moved on since the seed was written (fix: commits): merge the hunks
            r = sh(["git", "-C", wt, "apply", "--3way", os.path.join(d, "patch.diff")])
            if r.returncode == 0:
                sh(["git", "-C", wt, "reset", "-q"])
                out["patch_merged_3way"] = True
        out["patch_applies"] = r.returncode == 0
        if r.returncode:
            out["error"] = r.stderr[-400:]
            return out
        b = sh([PY, os.path.join(wt, demo)], env=env1, cwd=wt, timeout=900)
        os.remove(os.path.join(wt, demo))
        out["demo_unpatched_exit"] = a.returncode
        out["demo_unpatched_tail"] = (a.stdout + a.stderr)[-300:] if a.returncode else ""
        out["demo_patched_exit"] = b.returncode
        out["demo_patched_tail"] = (b.stdout + b.stderr)[-300:]
        if tests:
            t = sh("cd %s && %s -m pytest -q -p no:cacheprovider --timeout=900 -x -n 8 2>&1 | tail -3" % (wt, PY))
            if "unrecognized arguments" in t.stdout or "no such option" in t.stdout:
                t = sh("cd %s && %s -m pytest -q -p no:cacheprovider --timeout=900 2>&1 | tail -3" % (wt, PY))
            out["tests_tail"] = t.stdout.strip()[-300:]
            out["tests_pass"] = bool(re.search(r"\b\d+ passed", t.stdout)) and not re.search(r"\b\d+ (failed|error)", t.stdout)
        t0 = time.time()
        c = sh([os.path.join(ROOT, "check"), pid, "--tier", tier, "--jobs", str(jobs)], env=dict(os.environ, PYVC_REPO=wt), cwd=ROOT, timeout=7200)
        out["check_exit"] = c.returncode
        out["check_s"] = round(time.time() - t0, 1)
        viol = [l for l in c.stdout.splitlines() if l.startswith("VIOLATION")]
        out["violation_lines"] = len(viol)
        names = []
        for l in viol:
            m = re.search(r"replay=(\S+)", l)
            if m and os.path.exists(m.group(1)):
                try:
                    rec = json.load(open(m.group(1)))
                    names.append(dict(obligation=rec.get("obligation"), confirmed=not l.rstrip().endswith("no-failing-input-found")))
                except Exception:
                    names.append(dict(obligation=m.group(1)))
        out["failed_obligations"] = names
        out["check_tail"] = "\n".join(c.stdout.splitlines()[-6:])[-900:]
    finally:
        sh(["git", "-C", "/repo", "worktree", "remove", "--force", wt])
        shutil.rmtree(wt, ignore_errors=True)
        sh(["git", "-C", "/repo", "worktree", "prune"])
    out["caught"] = out.get("check_exit") == 1
    meta["property"] = pid
    meta["last_run"] = out
    json.dump(meta, open(meta_p, "w"), indent=1)
    return out


def table():
    rows = []
    dp = os.path.join(ROOT, "seeded", "descriptions.json")
    desc = json.load(open(dp)) if os.path.exists(dp) else {}
    for sid in sorted(x for x in os.listdir(os.path.join(ROOT, "seeded")) if os.path.isdir(os.path.join(ROOT, "seeded", x))):
        p = os.path.join(ROOT, "seeded", sid, "meta.json")
        if not os.path.exists(p):
            continue
        m = json.load(open(p))
        lr = m.get("last_run", {})
        ob = "; ".join(sorted({(x.get("obligation") or "?").split("/", 1)[-1] + ("" if x.get("confirmed", True) else " (no input)") for x in lr.get("failed_obligations", [])}))
        rows.append("| %s | %s | %s | %s | %s |" % (sid, m.get("property"), ((desc.get(sid) or {}).get("what") or m.get("what") or "").replace("|", "/"),
                                                 "caught" if lr.get("caught") else "**missed** (exit %s)" % lr.get("check_exit"), ob[:700] or "–"))
    print("| seed | property | change | verdict of `./check` | failed obligations |\n|---|---|---|---|---|")
    print("\n".join(rows))


if __name__ == "__main__":
    args = [a for a in sys.argv[1:] if not a.startswith("--")]
    if "--table" in sys.argv:
        table()
        sys.exit(0)
    if "--design" in sys.argv:  # rewrite the table of DESIGN.md 9.6 between its markers
        import io, contextlib
        buf = io.StringIO()
        with contextlib.redirect_stdout(buf):
            table()
        dp = os.path.join(ROOT, "DESIGN.md")
        d = open(dp).read()
        a, b = d.index("<!-- SEEDTABLE:BEGIN -->") + len("<!-- SEEDTABLE:BEGIN -->"), d.index("<!-- SEEDTABLE:END -->")
        open(dp, "w").write(d[:a] + "\n" + buf.getvalue() + d[b:])
        sys.exit(0)
    seeds = args or sorted(x for x in os.listdir(os.path.join(ROOT, "seeded")) if os.path.isdir(os.path.join(ROOT, "seeded", x)))
    for s in seeds:
        o = run_seed(s, tests="--tests" in sys.argv, tier="thorough" if "--thorough" in sys.argv else "quick")
        print(json.dumps({k: o.get(k) for k in ("seed", "property", "patch_applies", "demo_unpatched_exit", "demo_patched_exit", "tests_pass", "check_exit", "violation_lines", "check_s")}))
        sys.stdout.flush()
