"""SMT-LIB printing and the solver pool (z3-new 5.1, z3 4.8.12, cvc5 1.0.3 as independent CLI back ends)."""
from __future__ import annotations
import os
import re
import subprocess
import tempfile
import time
import hashlib
from concurrent.futures import ThreadPoolExecutor
import z3

BACKENDS = {
    "z3-new": ["z3-new", "-smt2"],
    "z3": ["/usr/bin/z3", "-smt2"],
    "cvc5": ["/usr/bin/cvc5", "--lang=smt2", "--strings-exp", "--produce-models"],
}


def to_smt2(axioms, assumptions, goal):
    from .ops import DEFAULT_AXIOMS
    s = z3.Solver()
    for a in DEFAULT_AXIOMS:
        s.add(a)
    for a in axioms:
        s.add(a)
    for a in assumptions:
        s.add(a)
    s.add(z3.Not(goal))
    txt = s.to_smt2()
    txt = re.sub(r"\(_ ([A-Za-z_][A-Za-z_0-9]*) 0\)", r"\1", txt)  # z3 prints recursive calls as ((_ f 0) ..)
    return txt


def has_quantifier(t, _seen=None):
    if _seen is None:
        _seen = set()
    if t.get_id() in _seen:
        return False
    _seen.add(t.get_id())
    if z3.is_quantifier(t):
        return True
    return any(has_quantifier(c, _seen) for c in t.children())


def to_smt2_relaxed(axioms, assumptions, goal):
    "the same query without the quantified assumptions: unsat here implies unsat of the full query; sat is only a candidate"
    from .ops import DEFAULT_AXIOMS
    keep = [a for a in list(DEFAULT_AXIOMS) + list(axioms) + list(assumptions) if not has_quantifier(a)]
    s = z3.Solver()
    for a in keep:
        s.add(a)
    s.add(z3.Not(goal))
    txt = s.to_smt2()
    txt = re.sub(r"\(_ ([A-Za-z_][A-Za-z_0-9]*) 0\)", r"\1", txt)
    return txt


def uses_strings(txt):
    return "String" in txt or "str." in txt


def _prep(txt, backend):
    if backend == "cvc5":
        txt = "(set-logic ALL)\n" + txt
        txt = txt.replace("(set-info :status unknown)", "")
    if backend == "z3":
        # z3 4.8.12 spells a few string functions differently
        txt = txt.replace("str.from_int", "int.to.str").replace("str.to_int", "str.to.int")
    return txt


def run_backend(backend, txt, timeout, want_model=False):
    txt = _prep(txt, backend)
    if want_model:
        txt = txt + "\n(get-model)\n"
        if backend != "cvc5":
            txt = "(set-option :produce-models true)\n" + txt
    cmd = list(BACKENDS[backend])
    if backend == "cvc5":
        cmd.append("--tlimit=%d" % int(timeout * 1000))
    else:
        cmd.append("-T:%d" % max(1, int(timeout)))
    fd, path = tempfile.mkstemp(suffix=".smt2", prefix="pyvc_")
    with os.fdopen(fd, "w") as f:
        f.write(txt)
    t0 = time.time()
    try:
        p = subprocess.run(cmd + [path], capture_output=True, text=True, timeout=timeout + 5)
        out = p.stdout.strip()
    except subprocess.TimeoutExpired:
        out = "timeout"
    finally:
        os.unlink(path)
    dt = time.time() - t0
    first = out.split("\n", 1)[0].strip() if out else ""
    if first not in ("sat", "unsat", "unknown"):
        verdict = "unknown" if ("timeout" in out or not out or "interrupted" in out.lower()) else "error"
    else:
        verdict = first
    return verdict, out, dt


def _start(backend, txt, timeout, want_model=False, seed=None):
    txt = _prep(txt, backend)
    if want_model:
        txt = txt + "\n(get-model)\n"
        if backend != "cvc5":
            txt = "(set-option :produce-models true)\n" + txt
    cmd = list(BACKENDS[backend])
    if backend == "cvc5":
        cmd.append("--tlimit=%d" % int(timeout * 1000))
    else:
        cmd.append("-T:%d" % max(1, int(timeout)))
    if seed is not None:
        cmd += ["--seed=%d" % seed] if backend == "cvc5" else ["smt.random_seed=%d" % seed, "sat.random_seed=%d" % seed]
    fd, path = tempfile.mkstemp(suffix=".smt2", prefix="pyvc_")
    with os.fdopen(fd, "w") as f:
        f.write(txt)
    p = subprocess.Popen(cmd + [path], stdout=subprocess.PIPE, stderr=subprocess.DEVNULL, text=True)
    return p, path


def _verdict(out):
    out = (out or "").strip()
    first = out.split("\n", 1)[0].strip() if out else ""
    if first in ("sat", "unsat", "unknown"):
        return first
    return "unknown" if (not out or "timeout" in out or "interrupted" in out.lower()) else "error"


def solve(txt, timeout=20, order=None, seed=None):
    """race the three back ends; unsat by any = discharged; sat by any = refuted (model from that back end);
    otherwise unknown.  -> dict(verdict, backend, time, raw, tried)"""
    if order is None:
        order = ["cvc5", "z3-new", "z3"] if uses_strings(txt) else ["z3-new", "z3", "cvc5"]
    t0 = time.time()
    procs = {}
    for b in order:
        procs[b] = _start(b, txt, timeout, want_model=True, seed=seed)
    tried = []
    result = None
    pending = dict(procs)
    while pending and result is None:
        for b in list(pending):
            p, path = pending[b]
            if p.poll() is not None:
                out = p.stdout.read()
                v = _verdict(out)
                tried.append((b, v, round(time.time() - t0, 3)))
                del pending[b]
                if v in ("sat", "unsat"):
                    result = dict(verdict=v, backend=b, raw=out.strip())
                    break
        if result is None and pending:
            if time.time() - t0 > timeout + 5:
                break
            time.sleep(0.005)
    for b, (p, path) in procs.items():
        if p.poll() is None:
            p.kill()
            try:
                p.wait(timeout=2)
            except Exception:
                pass
        try:
            p.stdout.close()
        except Exception:
            pass
        try:
            os.unlink(path)
        except OSError:
            pass
    dt = time.time() - t0
    if result is None:
        return dict(verdict="unknown", backend=None, time=dt, raw="\n".join("%s:%s" % (b, v) for b, v, _ in tried), tried=tried)
    result.update(time=dt, tried=tried)
    return result


def discharge_all(obls, axioms, jobs=8, timeout=20, keep_dir=None, progress=None):
    texts = []
    for o in obls:
        txt = to_smt2(axioms, o.assumptions, o.goal)
        texts.append(txt)
        o.smt2_sha = hashlib.sha256(txt.encode()).hexdigest()[:16]
        o.smt2 = txt

    def work(i):
        r = solve(texts[i], timeout)
        return i, r

    with ThreadPoolExecutor(max_workers=jobs) as ex:
        for i, r in ex.map(work, range(len(obls))):
            o = obls[i]
            o.result = r["verdict"]
            o.backend = r["backend"]
            o.time = r["time"]
            o.raw = r["raw"]
            o.tried = r["tried"]
            if progress:
                progress(o)
    return obls


def parse_model(raw):
    "very small parser for (define-fun name () Sort value) lines of a model: returns {name: text}"
    out = {}
    for m in re.finditer(r"\(define-fun\s+(\|[^|]+\||\S+)\s+\(\)\s+(\S+|\([^()]*\))\s+((?:[^()]|\((?:[^()]|\([^()]*\))*\))*?)\)\s*(?=\(define-fun|\)\s*$|$)", raw, re.S):
        out[m.group(1).strip("|")] = m.group(3).strip()
    return out
