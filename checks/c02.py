"""C02 static obligations: every variable a template of a back end uses is provided by write_cpp_files / add_to_replacement_dict of that
back end (an undefined variable would render as empty and silently drop code); every file the executor lists exists as a template;
the environment is created without autoescape."""
import ast, json, os, sys
sys.path.insert(0, os.path.dirname(os.path.abspath(__file__)))
from templates import undeclared, TDIR, REPO
results = []


def info_keys():
    src = open(os.path.join(REPO, "func_adl_xAOD/common/executor.py")).read()
    tree = ast.parse(src)
    keys = set()
    for n in ast.walk(tree):
        if isinstance(n, ast.Assign) and isinstance(n.targets[0], ast.Subscript) and isinstance(n.targets[0].value, ast.Name) \
                and n.targets[0].value.id == "info" and isinstance(n.targets[0].slice, ast.Constant):
            keys.add(n.targets[0].slice.value)
    env_calls = [n for n in ast.walk(tree) if isinstance(n, ast.Call) and isinstance(n.func, ast.Attribute) and n.func.attr == "Environment"]
    autoescape = any(k.arg == "autoescape" for c in env_calls for k in c.keywords)
    return keys, len(env_calls), autoescape


def file_names(rel, cls):
    tree = ast.parse(open(os.path.join(REPO, rel)).read())
    for n in ast.walk(tree):
        if isinstance(n, ast.Assign) and isinstance(n.targets[0], ast.Name) and n.targets[0].id == "file_names":
            return ast.literal_eval(n.value)
    return None


def extra_keys(rel):
    tree = ast.parse(open(os.path.join(REPO, rel)).read())
    ks = set()
    for n in ast.walk(tree):
        if isinstance(n, ast.FunctionDef) and n.name == "add_to_replacement_dict":
            for d in ast.walk(n):
                if isinstance(d, ast.Dict):
                    ks |= {k.value for k in d.keys if isinstance(k, ast.Constant)}
    return ks


try:
    keys, n_env, autoesc = info_keys()
    results.append(dict(name="C02/static:environment_without_autoescape", kind="static", status="ok" if (n_env == 1 and not autoesc) else "violation",
                        detail="" if (n_env == 1 and not autoesc) else "jinja2.Environment is created %d times / with autoescape=%s" % (n_env, autoesc)))
    for backend, ex, tdir in [("atlas", "func_adl_xAOD/atlas/xaod/executor.py", "atlas/r21"), ("cms_aod", "func_adl_xAOD/cms/aod/executor.py", "cms/r5"),
                              ("cms_miniaod", "func_adl_xAOD/cms/miniaod/executor.py", "cms/r7")]:
        provided = keys | extra_keys(ex)
        fn = file_names(ex, None)
        for f in fn or []:
            p = os.path.join(TDIR, tdir, f)
            ok = os.path.isfile(p)
            results.append(dict(name="C02/static:%s:file_exists:%s" % (backend, f), kind="static", status="ok" if ok else "violation",
                                detail="" if ok else "the executor lists %s but the template directory %s has no such file" % (f, tdir)))
            if ok:
                und = [v for v in undeclared(os.path.join(tdir, f)) if v not in provided]
                results.append(dict(name="C02/static:%s:variables_provided:%s" % (backend, f), kind="static", status="ok" if not und else "violation",
                                    detail="" if not und else "template %s/%s uses %s which write_cpp_files does not provide (renders empty)" % (tdir, f, und)))
        ok = fn is not None and "runner.sh" in fn
        results.append(dict(name="C02/static:%s:runner_listed" % backend, kind="static", status="ok" if ok else "violation"))
except Exception as e:  # noqa
    results.append(dict(name="C02/static", kind="static", status="undecided", detail="crashed: %r" % (e,)))
print(json.dumps(dict(results=results)))
