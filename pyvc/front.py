"""Extraction of the real sources from /repo (re-read on every run; nothing cached on disk)."""
from __future__ import annotations
import ast
import hashlib
import os

REPO = os.environ.get("PYVC_REPO", "/repo")
PKG = "func_adl_xAOD"


class ModuleInfo:
    def __init__(self, qn, path, src):
        self.qn = qn
        self.path = path
        self.src = src
        self.tree = ast.parse(src)
        self.functions = {}
        self.classes = {}
        self.assigns = {}  # name -> list of (value expr) in order
        self.imports = {}  # alias -> ('module', qn) | ('name', modqn, name)
        self.toplevel = self.tree.body
        self._scan()

    def _scan(self):
        for st in self.tree.body:
            self._scan_stmt(st)

    def _scan_stmt(self, st):
        if isinstance(st, (ast.FunctionDef, ast.AsyncFunctionDef)):
            self.functions[st.name] = st
        elif isinstance(st, ast.ClassDef):
            self.classes[st.name] = ClassInfo(self, st)
        elif isinstance(st, ast.Assign):
            for t in st.targets:
                if isinstance(t, ast.Name):
                    self.assigns.setdefault(t.id, []).append(st.value)
        elif isinstance(st, ast.AnnAssign) and isinstance(st.target, ast.Name) and st.value is not None:
            self.assigns.setdefault(st.target.id, []).append(st.value)
        elif isinstance(st, ast.Import):
            for a in st.names:
                if a.asname:
                    self.imports[a.asname] = ("module", a.name)
                else:
                    self.imports[a.name.split(".")[0]] = ("module", a.name.split(".")[0])
        elif isinstance(st, ast.ImportFrom):
            mod = st.module or ""
            if st.level:
                base = self.qn.split(".")
                base = base[: len(base) - st.level]
                mod = ".".join(base + ([mod] if mod else []))
            for a in st.names:
                self.imports[a.asname or a.name] = ("name", mod, a.name)


class ClassInfo:
    def __init__(self, mod, node):
        self.mod = mod
        self.node = node
        self.name = node.name
        self.qn = mod.qn + "." + node.name
        self.methods = {}
        self.props = set()
        self.static = set()
        self.attrs = {}
        self.is_dataclass = any((isinstance(d, ast.Name) and d.id == "dataclass") or
                                (isinstance(d, ast.Call) and isinstance(d.func, ast.Name) and d.func.id == "dataclass")
                                for d in node.decorator_list)
        self.fields = []  # dataclass fields [(name, annotation, default expr)]
        for st in node.body:
            if isinstance(st, (ast.FunctionDef, ast.AsyncFunctionDef)):
                self.methods[st.name] = st
                for d in st.decorator_list:
                    if isinstance(d, ast.Name) and d.id == "property":
                        self.props.add(st.name)
                    if isinstance(d, ast.Name) and d.id == "staticmethod":
                        self.static.add(st.name)
            elif isinstance(st, ast.Assign):
                for t in st.targets:
                    if isinstance(t, ast.Name):
                        self.attrs[t.id] = st.value
            elif isinstance(st, ast.AnnAssign) and isinstance(st.target, ast.Name):
                self.fields.append((st.target.id, st.annotation, st.value))
                if st.value is not None:
                    self.attrs[st.target.id] = st.value
        self.bases_expr = node.bases


class Repo:
    def __init__(self, root=None):
        self.root = root or REPO
        self.modules = {}
        self._classes = None

    def module_path(self, qn):
        p = os.path.join(self.root, *qn.split("."))
        if os.path.isfile(p + ".py"):
            return p + ".py"
        if os.path.isfile(os.path.join(p, "__init__.py")):
            return os.path.join(p, "__init__.py")
        return None

    def is_repo_module(self, qn):
        return qn.split(".")[0] == PKG and self.module_path(qn) is not None

    def module(self, qn) -> ModuleInfo:
        if qn not in self.modules:
            p = self.module_path(qn)
            if p is None:
                raise KeyError("no repo module " + qn)
            with open(p, encoding="utf-8") as f:
                src = f.read()
            self.modules[qn] = ModuleInfo(qn, p, src)
        return self.modules[qn]

    def all_module_names(self):
        out = []
        base = os.path.join(self.root, PKG)
        for d, _, fs in os.walk(base):
            for f in fs:
                if f.endswith(".py"):
                    rel = os.path.relpath(os.path.join(d, f), self.root)[:-3].replace(os.sep, ".")
                    if rel.endswith(".__init__"):
                        rel = rel[: -len(".__init__")]
                    out.append(rel)
        return sorted(out)

    spec_modules = []  # SpecModule objects (set by the driver): lemma clients live there

    def find(self, qn):
        """qualified name -> ('func', node, mod, None) | ('method', node, mod, ClassInfo) | ('class', ClassInfo) """
        if qn.startswith("spec:"):
            mq, fn = qn.rsplit(".", 1)
            for sm in self.spec_modules:
                if sm.qn == mq and fn in sm.functions:
                    return ("func", sm.functions[fn], sm, None)
            return None
        parts = qn.split(".")
        for k in range(len(parts), 0, -1):
            mq = ".".join(parts[:k])
            if self.is_repo_module(mq):
                m = self.module(mq)
                rest = parts[k:]
                if len(rest) == 1:
                    if rest[0] in m.functions:
                        return ("func", m.functions[rest[0]], m, None)
                    if rest[0] in m.classes:
                        return ("class", m.classes[rest[0]], m, m.classes[rest[0]])
                    if rest[0] == "<module>":
                        return ("module", m.tree, m, None)
                if len(rest) == 2 and rest[0] in m.classes:
                    c = m.classes[rest[0]]
                    if rest[1] in c.methods:
                        return ("method", c.methods[rest[1]], m, c)
                # nested function: mod.outer.<inner>
                if len(rest) >= 2:
                    node = None
                    if rest[0] in m.functions:
                        node = m.functions[rest[0]]
                        r2 = rest[1:]
                    elif rest[0] in m.classes and len(rest) >= 3 and rest[1] in m.classes[rest[0]].methods:
                        node = m.classes[rest[0]].methods[rest[1]]
                        r2 = rest[2:]
                    else:
                        r2 = None
                    while node is not None and r2:
                        nxt = None
                        for st in ast.walk(node):
                            if isinstance(st, (ast.FunctionDef, ast.ClassDef)) and st.name == r2[0] and st is not node:
                                nxt = st
                                break
                        node = nxt
                        r2 = r2[1:]
                    if node is not None:
                        return ("func", node, m, None)
                return None
        return None

    def seg_sha(self, mod, node):
        seg = ast.get_source_segment(mod.src, node) if not isinstance(node, ast.Module) else mod.src
        return hashlib.sha256((seg or "").encode()).hexdigest()

    # ---------------- class table
    def resolve_name(self, mod: ModuleInfo, expr):
        """resolve a Name/Attribute expression in module scope to a qualified name string, or None"""
        if isinstance(expr, ast.Name):
            n = expr.id
            if n in mod.classes or n in mod.functions or n in mod.assigns:
                return mod.qn + "." + n
            if n in mod.imports:
                imp = mod.imports[n]
                if imp[0] == "module":
                    return imp[1]
                return imp[1] + "." + imp[2]
            return "builtins." + n
        if isinstance(expr, ast.Attribute):
            b = self.resolve_name(mod, expr.value)
            if b is None:
                return None
            return b + "." + expr.attr
        return None

    def classes(self):
        if self._classes is None:
            t = {}
            for mq in self.all_module_names():
                try:
                    m = self.module(mq)
                except SyntaxError:
                    continue
                for c in m.classes.values():
                    t[c.qn] = c
            self._classes = t
        return self._classes

    pseudo = set()
    extra_bases = {}  # class qn -> [pseudo base names]: duck-typed unions declared by the sidecar schema

    def bases(self, cqn):
        c = self.classes().get(cqn)
        if c is None:
            return EXTERNAL_BASES.get(cqn, [])
        out = list(self.extra_bases.get(cqn, []))
        for b in c.bases_expr:
            r = self.resolve_name(c.mod, b)
            if r is not None:
                # follow re-exports: name imported from another repo module
                out.append(self.canonical(r))
        return out

    def canonical(self, qn):
        "follow `from x import y` chains so that a class has one qualified name"
        seen = set()
        while qn not in seen:
            seen.add(qn)
            parts = qn.split(".")
            mq, nm = ".".join(parts[:-1]), parts[-1]
            if self.is_repo_module(mq):
                m = self.module(mq)
                if nm in m.classes or nm in m.functions:
                    return qn
                if nm in m.imports:
                    imp = m.imports[nm]
                    qn = imp[1] if imp[0] == "module" else imp[1] + "." + imp[2]
                    continue
            return qn
        return qn

    def mro(self, cqn):
        "simple linearisation (depth first, left to right, duplicates removed keeping last) - enough for the single-inheritance + ABC hierarchy here"
        out = [cqn]
        for b in self.bases(cqn):
            for x in self.mro(b):
                if x in out:
                    out.remove(x)
                out.append(x)
        return out

    def is_subclass(self, a, b):
        return b in self.mro(a) or b == "builtins.object"

    def subclasses(self, b):
        "all known classes (repo + externals table) that are subclasses of b, including b"
        out = []
        for c in list(self.classes().keys()) + list(EXTERNAL_BASES.keys()):
            if self.is_subclass(c, b):
                out.append(c)
        if b not in out:
            out.append(b)
        return sorted(set(out))

    def find_method(self, cqn, name):
        "-> (ClassInfo, FunctionDef) following the mro, or None"
        for c in self.mro(cqn):
            ci = self.classes().get(c)
            if ci is not None and name in ci.methods:
                return ci, ci.methods[name]
        return None

    def instance_attr_assigned(self, cqn, name):
        "does any method of the class, its bases or its subclasses assign self.<name> ?  (the attribute then exists in the real code)"
        seen = set()
        for c in list(self.mro(cqn)) + list(self.subclasses(cqn)):
            if c in seen:
                continue
            seen.add(c)
            ci = self.classes().get(c)
            if ci is None:
                continue
            for m in ci.methods.values():
                for n in ast.walk(m):
                    if isinstance(n, ast.Attribute) and n.attr == name and isinstance(n.ctx, ast.Store) and isinstance(n.value, ast.Name) and n.value.id == "self":
                        return True
        return False

    def find_class_attr(self, cqn, name):
        for c in self.mro(cqn):
            ci = self.classes().get(c)
            if ci is not None and name in ci.attrs:
                return ci, ci.attrs[name]
        return None


# classes that live outside /repo but appear in isinstance tests / raise statements
_EXC = ["Exception", "ValueError", "TypeError", "RuntimeError", "NotImplementedError", "KeyError", "IndexError",
        "AssertionError", "AttributeError", "NameError", "FileNotFoundError", "OSError", "LookupError", "StopIteration"]
EXTERNAL_BASES = {
    "builtins.BaseException": [],
    "builtins.Exception": ["builtins.BaseException"],
    "builtins.ValueError": ["builtins.Exception"],
    "builtins.TypeError": ["builtins.Exception"],
    "builtins.RuntimeError": ["builtins.Exception"],
    "builtins.NotImplementedError": ["builtins.RuntimeError"],
    "builtins.LookupError": ["builtins.Exception"],
    "builtins.KeyError": ["builtins.LookupError"],
    "builtins.IndexError": ["builtins.LookupError"],
    "builtins.AssertionError": ["builtins.Exception"],
    "builtins.AttributeError": ["builtins.Exception"],
    "builtins.NameError": ["builtins.Exception"],
    "builtins.OSError": ["builtins.Exception"],
    "builtins.FileNotFoundError": ["builtins.OSError"],
    "builtins.StopIteration": ["builtins.Exception"],
    "python_on_whales.exceptions.DockerException": ["builtins.Exception"],
    "abc.ABC": [],
    "ast.AST": [],
    "ast.NodeVisitor": [],
    "ast.NodeTransformer": ["ast.NodeVisitor"],
    "func_adl.ast.func_adl_ast_utils.FuncADLNodeVisitor": ["ast.NodeVisitor"],
    "func_adl.event_dataset.EventDataset": [],
    "func_adl.EventDataset": [],
    "builtins.str": [], "builtins.int": [], "builtins.float": [], "builtins.bool": ["builtins.int"],
    "builtins.list": [], "builtins.tuple": [], "builtins.dict": [], "builtins.set": [],
    "pathlib.Path": [],
    "collections.abc.Iterable": [],
}
_AST_EXPR = ["Call", "Name", "Attribute", "Lambda", "Constant", "BinOp", "UnaryOp", "BoolOp", "Compare", "IfExp",
             "Subscript", "Tuple", "List", "Dict", "Slice", "Starred", "Num", "Str", "Index"]
_AST_OPS = ["Add", "Sub", "Mult", "Div", "Mod", "Pow", "FloorDiv", "MatMult", "LShift", "RShift", "BitOr", "BitXor",
            "BitAnd", "UAdd", "USub", "Not", "Invert", "And", "Or", "Lt", "LtE", "Gt", "GtE", "Eq", "NotEq", "Is",
            "IsNot", "In", "NotIn"]
EXTERNAL_BASES["ast.expr"] = ["ast.AST"]
EXTERNAL_BASES["ast.arg"] = ["ast.AST"]
EXTERNAL_BASES["ast.arguments"] = ["ast.AST"]
for _n in _AST_EXPR:
    EXTERNAL_BASES["ast." + _n] = ["ast.expr"]
for _n in _AST_OPS:
    EXTERNAL_BASES["ast." + _n] = ["ast.AST"]
