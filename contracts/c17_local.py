# C17 -- local docker execution.  execute_result_async itself (temporary directories, files, the docker stream, logging) is outside the
# deductive subset: its contract is checked by the bounded stand-in checks/c17.py on the real code with a stand-in docker.  The pure
# pieces it composes are under contract here.
LD = "func_adl_xAOD.common.local_dataset."
VolumeInfo = record(LD + "docker_volume_info", TRec("docker_volume_info", [("docker_name", Str), ("mount_point", Str)]))

contract(LD + "_docker_volume_name", props=["C17"], params=dict(info=VolumeInfo), result=Str,
         ensures=[("volume_name", "result == 'func_adl_' + info.docker_name")])

contract("func_adl_xAOD.atlas.xaod.local_dataset.xAODDataset.docker_cache_volume", props=["C17"],
         params=dict(self=RefOf("func_adl_xAOD.atlas.xaod.local_dataset.xAODDataset")), result=TList(VolumeInfo),
         ensures=[("calibration_cache", "len(result) == 1 and result[0].docker_name == 'atlas_xaod_calibration_cache' and "
                                        "result[0].mount_point == '/xaod_calibration_cache'")])
for _qn in ["func_adl_xAOD.cms.aod.local_dataset.CMSRun1AODDataset", "func_adl_xAOD.cms.miniaod.local_dataset.CMSRun2miniAODDataset"]:
    contract(_qn + ".docker_cache_volume", props=["C17"], params=dict(self=RefOf(_qn)), result=TList(VolumeInfo),
             ensures=[("no_cache_volumes", "len(result) == 0")])

# the image override: the docker declarations found in THIS query (collected by _apply_ast_transformations), or none
contract("func_adl_xAOD.common.executor.executor.extended_md", props=["C17", "C07"],
         params=dict(self=RefOf(EXEC), name=Str), result=TList(Spec),
         ensures=[("found_in_this_query", "result == (field(self, '_found_extended_md')[name] if name in field(self, '_found_extended_md') else [])"),
                  ("read_only", "unchanged('_found_extended_md') and unchanged('_extended_md')")])
