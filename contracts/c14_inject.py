# C14 -- injected code blocks land once, in order, in their documented places.
MDQ = "func_adl_xAOD.common.meta_data."
ICB = MDQ + "InjectCodeBlock"

def InjectCodeBlock_t():
    return cls("func_adl_xAOD.common.meta_data.InjectCodeBlock")


def name_of(b):
    return b.name


contract(MDQ + "ok_to_add_code_block", props=["C14"],
         params=dict(spec=InjectCodeBlock, cpp_funcs=TList(Spec)), result=Bool,
         raises={"ValueError": "any(isinstance(b, InjectCodeBlock_t()) and name_of(b) == spec.name and b != spec and "
                               "all(not (isinstance(cpp_funcs[j], InjectCodeBlock_t()) and name_of(cpp_funcs[j]) == spec.name) for j in range(0, i)) "
                               "for i, b in enumerate(cpp_funcs))"},
         ensures=[("duplicate_counts_once", "result == (not any(b == spec for b in cpp_funcs))")],
         loops={1: dict(invariant=[("I.no_same_name_before", "all(not (isinstance(cpp_funcs[j], InjectCodeBlock_t()) and name_of(cpp_funcs[j]) == spec.name) for j in range(0, _i))")])})
