# C01 / C04 -- Where: the rest of the pipeline runs inside a guard on the filter's value for this element.
contract("func_adl.util_ast.lambda_unwrap", assumed=True, params=dict(lam=Ref), result=RefOf("ast.Lambda"), fresh_result=False,
         ensures=["result != None and live(result)"], may_raise=["Exception"], strict=False,
         note="func_adl: strips a Module/Expr wrapper from a lambda; the lambda node")
SEQ_CLS = P + "cpp_representation.cpp_sequence"
BLK = "func_adl_xAOD.common.statement."
contract(TR + "query_ast_visitor.call_Where", props=["C01", "C04"],
         params=dict(self=QV, node=Ref, args=TList(Ref)),
         requires=CVC_REQUIRES + [("source_and_filter", "len(args) == 2 and args[0] != None and live(args[0]) and args[1] != None and live(args[1]) and node != None and live(node)"),
                                  ("cursor", "len(cursor(self)) >= 1 and all(b != None and live(b) for b in cursor(self))")],
         modifies=CVC_MODIFIES + ["_expr", "_sequence", "_iterator", "_type@" + SEQ_CLS, "_node", "_expression", "_scope", "_cpp_type", "func", "args", "keywords"],
         may_raise=["Exception"], strict=False,
         local_sorts=dict(g_if=RefOf(BLOCK), g_parent=RefOf(BLOCK), rep=VAL, seq=RefOf(SEQ_CLS), w_val=VAL, g_arg_rep=REP, c=Ref),
         ghost_init=["g_if = None", "g_parent = None", "g_arg_rep = None"],
         ghost={"after:self._gc.add_statement(statement.iftest(rep))": ["g_if = top_block(cursor(self))", "g_parent = cursor(self)[len(cursor(self)) - 2]"],
                "after:c = ast.Call(": ["g_arg_rep = rep_of(field(c, 'args')[0])"]},
         ensures=CVC_ENSURES + [
             ("filter_guard@C01,C04", "final_g_if != None and is_new(final_g_if) and cls_is(final_g_if, '" + BLK + "iftest') and field(final_g_if, '_expr') == final_rep and "
                                      "last_stmt(final_g_parent) == final_g_if"),
             ("filter_applied_to_the_element@C01,C04", "final_rep == rep_of(final_c) and is_new(final_c) and len(field(final_c, 'args')) == 1 and "
                                                       "final_g_arg_rep == field(final_seq, '_sequence') and isinst(field(final_c, 'func'), 'ast.Lambda')"),
             ("rest_of_the_pipeline_runs_inside_the_guard@C01,C04", "top_block(cursor(self)) == final_g_if and len(field(final_g_if, '_statements')) == 0"),
             ("filtered_sequence@C01", "rep_of(node) != None and is_new(rep_of(node)) and cls_is(rep_of(node), '" + SEQ_CLS + "') and "
                                       "field(rep_of(node), '_iterator') == field(final_seq, '_iterator') and "
                                       "is_new(field(rep_of(node), '_sequence')) and expr_of(field(rep_of(node), '_sequence')) == expr_of(final_w_val) and "
                                       "type_of(field(rep_of(node), '_sequence')) == type_of(final_w_val)"),
             ("element_visible_only_inside_the_guard@C01", "seq_eq(stack_of(scope_of(field(rep_of(node), '_sequence'))), cursor(self)) and "
                                                           "seq_eq(stack_of(field(rep_of(node), '_scope', '" + SEQ_CLS + "')), cursor(self))"),
         ])

# ---- Select: same iteration, each element replaced by the lambda applied to it ---------------------------------------------
contract(TR + "query_ast_visitor.call_Select", props=["C01"],
         params=dict(self=QV, node=Ref, args=TList(Ref)), result=RefOf(SEQ_CLS),
         requires=CVC_REQUIRES + [("source_and_selection", "len(args) == 2 and args[0] != None and live(args[0]) and args[1] != None and live(args[1]) and node != None and live(node)"),
                                  ("cursor", "len(cursor(self)) >= 1 and all(b != None and live(b) for b in cursor(self))")],
         modifies=CVC_MODIFIES + ["_sequence", "_iterator", "_type@" + SEQ_CLS, "_node", "_scope", "func", "args", "keywords"],
         may_raise=["Exception"], strict=False,
         local_sorts=dict(seq=RefOf(SEQ_CLS), new_sequence_value=REP, c=Ref, g_arg_rep=REP), ghost_init=["g_arg_rep = None"],
         ghost={"after:c = ast.Call(": ["g_arg_rep = rep_of(field(c, 'args')[0])"]},
         ensures=CVC_ENSURES + [
             ("same_iteration_new_element_value@C01", "result != None and is_new(result) and cls_is(result, '" + SEQ_CLS + "') and rep_of(node) == result and "
                                                      "field(result, '_iterator') == field(final_seq, '_iterator') and "
                                                      "field(result, '_sequence') == final_new_sequence_value and final_new_sequence_value == rep_of(final_c)"),
             ("lambda_applied_to_the_element@C01", "is_new(final_c) and isinst(final_c, 'ast.Call') and len(field(final_c, 'args')) == 1 and "
                                                   "final_g_arg_rep == old_seq_value(final_seq) and "
                                                   "isinst(field(final_c, 'func'), 'ast.Lambda')"),
             ("valid_where_the_element_was_computed@C01", "seq_eq(stack_of(field(result, '_scope', '" + SEQ_CLS + "')), cursor(self))"),
         ])


def old_seq_value(seq):
    return field(seq, "_sequence")
# ---- SelectMany: the lambda applied to the element gives a collection; the rest of the pipeline iterates over it ----------------
contract(TR + "query_ast_visitor.call_SelectMany", props=["C01"],
         params=dict(self=QV, node=Ref, args=TList(Ref)), result=REP,
         requires=CVC_REQUIRES + [("source_and_selection", "len(args) == 2 and args[0] != None and live(args[0]) and args[1] != None and live(args[1]) and node != None and live(node)"),
                                  ("cursor", "len(cursor(self)) >= 1 and all(b != None and live(b) for b in cursor(self))")],
         modifies=CVC_MODIFIES + ["func", "args", "keywords"], may_raise=["Exception"], strict=False,
         local_sorts=dict(seq=REP, c=Ref, g_arg_rep=REP, g_src_seq=REP), ghost_init=["g_arg_rep = None", "g_src_seq = None"],
         ghost={"after:c = ast.Call(": ["g_arg_rep = rep_of(field(c, 'args')[0])", "g_src_seq = seq"]},
         ensures=CVC_ENSURES + [
             ("iterates_over_the_collection_the_lambda_yields@C01", "result != None and live(result) and rep_of(node) == result and result == final_seq"),
             ("lambda_applied_to_the_element@C01", "is_new(final_c) and isinst(final_c, 'ast.Call') and len(field(final_c, 'args')) == 1 and "
                                                   "final_g_arg_rep == field(final_g_src_seq, '_sequence') and isinst(field(final_c, 'func'), 'ast.Lambda')"),
         ])
