# C10 -- declared method, collection-return and enum types are honoured exactly.
CT = "func_adl_xAOD.common.cpp_types."
CR = "func_adl_xAOD.common.cpp_representation."
TERM = RefOf(CT + "terminal")


def clean_base(b):
    "a base type name: non-empty, no white space at either end, does not end in '*', is not itself const-prefixed"
    return (strlen(b) > 0 and not is_space(at(b, 0)) and not is_space(at(b, strlen(b) - 1))
            and at(b, strlen(b) - 1) != "*" and not startswith(b, "const "))


# ---- parse_type: theorem over canonical spellings  [const ]T*...*   (pointer depth k unbounded)
contract(CT + "parse_type#canonical",
         props=["C10"],
         params=dict(t_name=Str),
         logical=dict(base=Str, k=Int, isc=Bool),
         pools={"base": [{"t": "str", "v": x} for x in ["int", "a", "std::vector<float>", "unsigned long", "c"]],
                "k": [{"t": "int", "v": x} for x in [0, 1, 2, 3]]},
         result=CPPParsedTypeInfo,
         requires=["k >= 0", "clean_base(base)", "t_name == ('const ' if isc else '') + base + str_repeat('*', k)"],
         ensures=[("name", "result.name == base"), ("depth", "result.pointer_depth == k"), ("const", "result.is_const == isc")],
         loops={1: dict(invariant=[("I.depth", "0 <= ptr_depth and ptr_depth <= k"),
                                   ("I.text", "t_name == ('const ' if isc else '') + base + str_repeat('*', k - ptr_depth)")],
                        variant="k - ptr_depth + 1")})

# ---- parse_type: general facts usable at call sites
uninterpreted("parsed_type", [Str], CPPParsedTypeInfo)   # ghost: parse_type as a mathematical function of its argument (it reads nothing else)
contract(CT + "parse_type", pure_fn="parsed_type",
         props=["C10"],
         params=dict(t_name=Str),
         result=CPPParsedTypeInfo,
         ensures=[("depth_nonneg", "result.pointer_depth >= 0"),
                  ("no_trailing_star", "not endswith(result.name, '*')")],
         loops={1: dict(invariant=[("I.depth", "ptr_depth >= 0")])})

# ---- CPPParsedTypeInfo.__str__ ---------------------------------------------------------------------------------
contract(CT + "CPPParsedTypeInfo.__str__", props=["C10"], params=dict(self=CPPParsedTypeInfo), result=Str,
         ensures=[("text", "result == self.name + str_repeat('*', self.pointer_depth)")])

# ---- terminal --------------------------------------------------------------------------------------------------
def terminal_text(t):
    return ("const " if field(t, "_is_const") else "") + field(t, "_type") + str_repeat("*", field(t, "_p_depth"))


contract(CT + "terminal.__init__#str", props=["C10"],
         params=dict(self=TERM, t=Str, p_depth=Int, is_const=Bool, tree_type=TOpt(Str)),
         modifies=["_type", "_p_depth", "_is_const", "_tree_type"],
         ensures=[("type", "field(self, '_type') == t"), ("depth", "field(self, '_p_depth') == p_depth"),
                  ("const", "field(self, '_is_const') == is_const"), ("tree", "field(self, '_tree_type') == tree_type"),
                  ("frame", "frame('_type', self) and frame('_p_depth', self) and frame('_is_const', self) and frame('_tree_type', self)")])

contract(CT + "terminal.__init__#parsed", props=["C10"],
         params=dict(self=TERM, t=CPPParsedTypeInfo, p_depth=Int, is_const=Bool, tree_type=TOpt(Str)),
         modifies=["_type", "_p_depth", "_is_const", "_tree_type"],
         ensures=[("type", "field(self, '_type') == t.name"), ("depth", "field(self, '_p_depth') == t.pointer_depth"),
                  ("const", "field(self, '_is_const') == t.is_const"), ("tree", "field(self, '_tree_type') == tree_type"),
                  ("frame", "frame('_type', self) and frame('_p_depth', self) and frame('_is_const', self) and frame('_tree_type', self)")])

contract(CT + "terminal.__str__", props=["C10"], params=dict(self=TERM), result=Str,
         requires=["cls_is(self, '" + CT + "terminal')"],
         ensures=[("text", "result == terminal_text(self)")])

contract(CT + "terminal.tree_type", props=["C10", "C03"], params=dict(self=TERM), result=TERM, modifies=["alloc"],
         ensures=[("undeclared", "implies(field(self, '_tree_type') == None, result == self)"),
                  ("declared", "implies(field(self, '_tree_type') != None, is_new(result) and cls_is(result, '" + CT + "terminal') and "
                               "field(result, '_type') == field(self, '_tree_type') and field(result, '_p_depth') == field(self, '_p_depth') "
                               "and field(result, '_is_const') == field(self, '_is_const') and field(result, '_tree_type') == None)"),
                  ("self_untouched", "field(self, '_type') == old(field(self, '_type')) and field(self, '_p_depth') == old(field(self, '_p_depth'))")])

contract(CT + "terminal.get_dereferenced_type", props=["C10"], params=dict(self=TERM), result=TERM, modifies=["alloc"],
         raises={"RuntimeError": "field(self, '_p_depth') == 0"},
         ensures=[("copy", "is_new(result) and same_class(result, self) and field(result, '_type') == field(self, '_type') and "
                           "field(result, '_is_const') == field(self, '_is_const') and field(result, '_element_type') == field(self, '_element_type')"),
                  ("one_less", "field(result, '_p_depth') == old(field(self, '_p_depth')) - 1"),
                  ("self_untouched", "frame('_p_depth', result) and frame('_type', result)")])

# ---- member access / dereference synthesis --------------------------------------------------------------------
recursive("deref", [("e", Str), ("n", Int)], Str, "e if n <= 0 else '(*' + deref(e, n - 1) + ')'")


def member_access(e, depth):
    "obj f => f.   obj *f => f->   obj **f => (*f)->   ... for any total indirection"
    return e + "." if depth <= 0 else deref(e, depth - 1) + "->"


CV = RefOf(CR + "cpp_value")
contract(CR + "base_type_member_access", props=["C10"], replay="base_type_member_access",
         params=dict(v=CV, extra_deref=Int), result=Str, defaults=dict(extra_deref="0"),
         requires=["extra_deref >= 0", "field(v, '_cpp_type') != None", "field(field(v, '_cpp_type'), '_p_depth') >= 0"],
         ensures=[("access", "result == member_access(field(v, '_expression'), extra_deref + field(field(v, '_cpp_type'), '_p_depth'))")],
         loops={1: dict(invariant=[("I.deref", "result == deref(field(v, '_expression'), _i)")])})

contract(CR + "dereference_var", props=["C10"],
         params=dict(v=CV), result=CV, modifies=["alloc"],
         requires=["field(v, '_cpp_type') != None"],
         ensures=[("not_pointer", "implies(field(field(v, '_cpp_type'), '_p_depth') <= 0, result == v)"),
                  ("pointer", "implies(field(field(v, '_cpp_type'), '_p_depth') > 0, is_new(result) and same_class(result, v) and "
                              "field(result, '_expression') == '*' + field(v, '_expression') and field(result, '_scope') == field(v, '_scope') and "
                              "is_new(field(result, '_cpp_type')) and "
                              "field(field(result, '_cpp_type'), '_p_depth') == field(field(v, '_cpp_type'), '_p_depth') - 1 and "
                              "field(field(result, '_cpp_type'), '_type') == field(field(v, '_cpp_type'), '_type') and "
                              "field(field(result, '_cpp_type'), '_element_type') == field(field(v, '_cpp_type'), '_element_type'))"),
                  ("original_untouched", "field(v, '_expression') == old(field(v, '_expression')) and field(v, '_cpp_type') == old(field(v, '_cpp_type')) "
                                         "and field(field(v, '_cpp_type'), '_p_depth') == old(field(field(v, '_cpp_type'), '_p_depth'))")])

# ---- type of a sequence: a collection of its element type (recursive through nested sequences) -------------------
contract(CR + "cpp_sequence.cpp_type", props=["C10"],
         params=dict(self=RefOf(CR + "cpp_sequence")), result=TERM,
         requires=[("cached_type_is_collection", "field(self, '_type') == None or (isinst(field(self, '_type'), '" + CT + "collection') and "
                                                 "field(field(self, '_type'), '_tree_type') == None)")],
         modifies=["_type@" + CR + "cpp_sequence", "alloc"], may_raise=["Exception"], strict=False,
         ensures=[("collection", "result != None and live(result) and isinst(result, '" + CT + "collection')"),
                  ("collections_have_no_tree_type", "field(result, '_tree_type') == None")])
