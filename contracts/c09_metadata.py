# process_metadata (common/meta_data.py:81-269): serves C06, C09, C10, C11, C14, C15.
MDQ = "func_adl_xAOD.common.meta_data."
KNOWN_TYPES = ["add_method_type_info", "inject_code", "add_job_script", "add_cpp_function", "add_atlas_event_collection_info",
               "add_cms_aod_event_collection_info", "add_cms_miniaod_event_collection_info", "define_enum"]


def mtype(md):
    return md["metadata_type"]


def has(md, k):
    return k in md


def known_type(md):
    return (mtype(md) == "add_method_type_info" or mtype(md) == "inject_code" or mtype(md) == "add_job_script" or
            mtype(md) == "add_cpp_function" or mtype(md) == "add_atlas_event_collection_info" or
            mtype(md) == "add_cms_aod_event_collection_info" or mtype(md) == "add_cms_miniaod_event_collection_info" or mtype(md) == "define_enum")


contract("func_adl_xAOD.common.cpp_types.define_enum", assumed=True, params=dict(ns_name=Str, enum_name=Str, enum_values=TList(Str)),
         modifies=["global:func_adl_xAOD.common.cpp_types.g_toplevel_ns", "alloc"],
         note="namespace tree construction over ns_name.split('.') (symbolic split): under an opaque contract for now")


def opt_list(md, k):
    return md[k] if k in md else []


def job_of(md):
    return JobScriptSpecification(md["name"], md["script"], opt_list(md, "depends_on"))


def inject_of(md):
    return InjectCodeBlock(md["name"], opt_list(md, "body_includes"), opt_list(md, "header_includes"), opt_list(md, "private_members"),
                           opt_list(md, "instance_initialization"), opt_list(md, "ctor_lines"), opt_list(md, "initialize_lines"),
                           opt_list(md, "link_libraries"))


def cppfn_of(md):
    return CPPCodeSpecification(md["name"], md["include_files"], md["arguments"], md["code"],
                                md["result_name"] if "result_name" in md else "result", parsed_type(md["return_type"]),
                                md["return_is_collection"] if "return_is_collection" in md else False,
                                md["method_object"] if "method_object" in md else None,
                                md["instance_object"] if "instance_object" in md else None)


def is_collection_md(md):
    return (mtype(md) == "add_atlas_event_collection_info" or mtype(md) == "add_cms_aod_event_collection_info" or
            mtype(md) == "add_cms_miniaod_event_collection_info")


def backend_of(md):
    return "atlas" if mtype(md) == "add_atlas_event_collection_info" else ("cms_aod" if mtype(md) == "add_cms_aod_event_collection_info" else "cms_miniaod")


def container_of_backend(t, md):
    "the container object is of the declaring backend's own container classes (collection of elements / single object)"
    return ((cls_is(t, "func_adl_xAOD.atlas.xaod.event_collections.atlas_xaod_event_collection_collection") if md["contains_collection"]
             else cls_is(t, "func_adl_xAOD.atlas.xaod.event_collections.atlas_xaod_event_collection_container"))
            if mtype(md) == "add_atlas_event_collection_info" else
            (cls_is(t, "func_adl_xAOD.cms.aod.event_collections.cms_aod_event_collection_collection") if mtype(md) == "add_cms_aod_event_collection_info"
             else cls_is(t, "func_adl_xAOD.cms.miniaod.event_collections.cms_miniaod_event_collection_collection")))


def element_declared(t, md):
    "elements are iterated with the declared element type"
    return implies("element_type" in md and (md["contains_collection"] or mtype(md) != "add_atlas_event_collection_info"),
                   field(t, "_element_type") != None and live(field(t, "_element_type")) and
                   field(field(t, "_element_type"), "_type", "func_adl_xAOD.common.cpp_types.terminal") == md["element_type"] and
                   field(field(t, "_element_type"), "_p_depth") ==
                   (1 if mtype(md) == "add_atlas_event_collection_info" or ("element_pointer" in md and md["element_pointer"]) else 0))


def collection_matches(s, md):
    return (isinstance(s, cls("func_adl_xAOD.common.event_collections.EventCollectionSpecification")) and s.backend_name == backend_of(md) and
            s.name == md["name"] and s.include_files == md["include_files"] and s.container_type != None and
            field(s.container_type, "_type", "func_adl_xAOD.common.cpp_types.terminal") == md["container_type"])


def collection_detail(s, md):
    return (isinstance(s, cls("func_adl_xAOD.common.event_collections.EventCollectionSpecification")) and s.container_type != None and
            container_of_backend(s.container_type, md) and element_declared(s.container_type, md) and
            s.libraries == (opt_list(md, "link_libraries") if mtype(md) == "add_atlas_event_collection_info" else []))


def collection_keys_ok(md):
    "a collection declaration only uses the documented keys, and says what its elements are exactly when it has elements"
    return ((keys_within(md, ["metadata_type", "name", "include_files", "container_type", "element_type", "contains_collection", "link_libraries"])
             if mtype(md) == "add_atlas_event_collection_info" else
             keys_within(md, ["metadata_type", "name", "include_files", "container_type", "element_type", "contains_collection", "element_pointer"])) and
            md["contains_collection"] == ("element_type" in md))


def always_appends(md):
    return mtype(md) == "add_job_script" or mtype(md) == "add_cpp_function" or is_collection_md(md)


def produces(md):
    return always_appends(md) or mtype(md) == "inject_code"


def matches(s, md):
    return (implies(mtype(md) == "add_job_script", s == job_of(md)) and
            implies(mtype(md) == "inject_code", s == inject_of(md)) and
            implies(mtype(md) == "add_cpp_function", s == cppfn_of(md)) and
            implies(is_collection_md(md), collection_matches(s, md)))


IntIntM = TMap(Int, Int)
PM_INV = [
    ("I.all_known_so_far", "all(has(md_list[k], 'metadata_type') and known_type(md_list[k]) for k in range(0, _i))"),
    ("I.collection_declarations_well_formed", "all(implies(is_collection_md(md_list[k]), collection_keys_ok(md_list[k])) for k in range(0, _i))"),
    ("Q1.every_spec_from_its_metadata", "all(0 <= g_src[q] and g_src[q] < _i and produces(md_list[g_src[q]]) and matches(cpp_funcs[q], md_list[g_src[q]]) "
                                        "for q in range(0, len(cpp_funcs)))"),
    ("Q1c.collections_carry_their_declaration", "all(implies(is_collection_md(md_list[g_src[q]]), collection_detail(cpp_funcs[q], md_list[g_src[q]])) "
                                                "for q in range(0, len(cpp_funcs)))"),
    ("Q2.in_metadata_order", "all(g_src[q - 1] < g_src[q] for q in range(1, len(cpp_funcs)))"),
    ("Q3.none_dropped", "all(implies(always_appends(md_list[k]), 0 <= g_pos[k] and g_pos[k] < len(cpp_funcs) and g_src[g_pos[k]] == k) for k in range(0, _i))"),
]

def _S(x):
    return {"t": "str", "v": x}


_JOB = ({"metadata_type": _S("add_job_script")}, ["depends_on"], ["name", "script"])
_PM_SHAPES = [
    _JOB, _JOB, _JOB,
    ({"metadata_type": _S("inject_code")}, ["body_includes", "header_includes", "ctor_lines", "link_libraries", "bogus_key"], ["name"]),
    ({"metadata_type": _S("add_cpp_function")}, ["result_name", "return_is_collection", "method_object"], ["name", "include_files", "arguments", "code", "return_type"]),
    ({"metadata_type": _S("add_method_type_info"), "return_type": _S("int*")}, ["deref_count", "tree_type"], ["type_string", "method_name"]),
    ({"metadata_type": _S("add_cms_aod_event_collection_info"), "contains_collection": {"t": "bool", "v": True}}, ["element_pointer"], ["name", "include_files", "container_type", "element_type"]),
    ({"metadata_type": _S("add_cms_miniaod_event_collection_info"), "contains_collection": {"t": "bool", "v": True}, "element_pointer": {"t": "bool", "v": True}}, [], ["name", "include_files", "container_type", "element_type"]),
    ({"metadata_type": _S("add_atlas_event_collection_info"), "contains_collection": {"t": "bool", "v": True}}, ["link_libraries"], ["name", "include_files", "container_type", "element_type"]),
    ({"metadata_type": _S("no_such_type")}, [], []),
    ({}, ["name"], []),
]
contract(MDQ + "process_metadata", props=["C09", "C14", "C15", "C10", "C11", "C06"], oracle="process_metadata",
         pools={"kdict_shapes": _PM_SHAPES, "str": ["A", "B"], "len": [0, 1, 2, 2, 3, 3, 4], "MD.name": [_S("A"), _S("B")], "MD.script": [{"t": "list", "v": [_S("l1")]}, {"t": "list", "v": []}], "extended_properties": [{"t": "dict", "v": []}]},
         params=dict(md_list=TList(MD), extended_properties=TDict(Str, Spec)), result=TList(Spec),
         requires=[("no_extended_properties", "len(extended_properties) == 0")],
         modifies=["global:func_adl_xAOD.common.cpp_types.g_method_type_dict", "global:func_adl_xAOD.common.cpp_types.g_toplevel_ns", "alloc",
                   "_type", "_p_depth", "_is_const", "_tree_type", "_element_type"],
         may_raise=["Exception"], strict=False,
         local_sorts=dict(cpp_funcs=TList(Spec), g_src=IntIntM, g_pos=IntIntM),
         ghost_init=["g_src = any_value(IntIntM)", "g_pos = any_value(IntIntM)"],
         ghost={"after:cpp_funcs.append(": ["g_src = store(g_src, len(cpp_funcs) - 1, _i)", "g_pos = store(g_pos, _i, len(cpp_funcs) - 1)"]},
         raises={"ValueError": "any(not has(md, 'metadata_type') or not known_type(md) for md in md_list)"},
         ensures=[("every_spec_from_its_metadata@C14,C15,C11,C06", "all(0 <= final_g_src[q] and final_g_src[q] < len(md_list) and produces(md_list[final_g_src[q]]) and "
                                                                   "matches(result[q], md_list[final_g_src[q]]) for q in range(0, len(result)))"),
                  ("collections_carry_their_declaration@C06", "all(implies(is_collection_md(md_list[final_g_src[q]]), collection_detail(result[q], md_list[final_g_src[q]])) "
                                                             "for q in range(0, len(result)))"),
                  ("malformed_collection_declarations_refused@C06,C09", "all(implies(is_collection_md(md), collection_keys_ok(md)) for md in md_list)"),
                  ("in_metadata_order@C14,C15", "all(final_g_src[q - 1] < final_g_src[q] for q in range(1, len(result)))"),
                  ("none_dropped@C15,C11,C06,C09", "all(implies(always_appends(md_list[k]), 0 <= final_g_pos[k] and final_g_pos[k] < len(result) and "
                                                   "final_g_src[final_g_pos[k]] == k) for k in range(0, len(md_list)))")],
         loops={1: dict(modifies=["global:func_adl_xAOD.common.cpp_types.g_method_type_dict", "global:func_adl_xAOD.common.cpp_types.g_toplevel_ns",
                                  "_type", "_p_depth", "_is_const", "_tree_type", "_element_type"],
                        ghost_mods=["g_src", "g_pos"], invariant=PM_INV)})
