# C10 -- declared method, collection-return and enum types are honoured exactly.
CT = "func_adl_xAOD.common.cpp_types."
CR = "func_adl_xAOD.common.cpp_representation."
TERM = RefOf(CT + "terminal")


def clean_base(b):
    "a base type name: non-empty, no white space at either end, does not end in '*', is not itself const-prefixed"
    return (strlen(b) > 0 and not is_space(at(b, 0)) and not is_space(at(b, strlen(b) - 1))
            and at(b, strlen(b) - 1) != "*" and not startswith(b, "const "))


# ---- parse_type: theorem over canonical spellings  [const ]T*...*   (pointer depth k unbounded)
contract(CT + "parse_type#canonical",
         props=["C10"],
         params=dict(t_name=Str),
         logical=dict(base=Str, k=Int, isc=Bool),
         pools={"base": [{"t": "str", "v": x} for x in ["int", "a", "std::vector<float>", "unsigned long", "c"]],
                "k": [{"t": "int", "v": x} for x in [0, 1, 2, 3]]},
         result=CPPParsedTypeInfo,
         requires=["k >= 0", "clean_base(base)", "t_name == ('const ' if isc else '') + base + str_repeat('*', k)"],
         ensures=[("name", "result.name == base"), ("depth", "result.pointer_depth == k"), ("const", "result.is_const == isc")],
         loops={1: dict(invariant=[("I.depth", "0 <= ptr_depth and ptr_depth <= k"),
                                   ("I.text", "t_name == ('const ' if isc else '') + base + str_repeat('*', k - ptr_depth)")],
                        variant="k - ptr_depth + 1")})

# ---- parse_type: general facts usable at call sites
contract(CT + "parse_type",
         props=["C10"],
         params=dict(t_name=Str),
         result=CPPParsedTypeInfo,
         ensures=[("depth_nonneg", "result.pointer_depth >= 0"),
                  ("no_trailing_star", "not endswith(result.name, '*')")],
         loops={1: dict(invariant=[("I.depth", "ptr_depth >= 0")])})
