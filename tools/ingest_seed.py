#!/usr/bin/env python3
"""ingest_seed.py <property> <new seed id> <dir with patch.diff demo_*.py notes.txt>  ->  /verif/seeded/<new id>/ (patch.diff, demo, meta.json)"""
import json, os, shutil, sys
ROOT = os.path.dirname(os.path.dirname(os.path.abspath(__file__)))
pid, sid, src = sys.argv[1:4]
dst = os.path.join(ROOT, "seeded", sid)
os.makedirs(dst, exist_ok=True)
shutil.copy(os.path.join(src, "patch.diff"), os.path.join(dst, "patch.diff"))
demo = [f for f in os.listdir(src) if f.startswith("demo") and f.endswith(".py")][0]
shutil.copy(os.path.join(src, demo), os.path.join(dst, "demo_%s.py" % sid))
notes = open(os.path.join(src, "notes.txt")).read() if os.path.exists(os.path.join(src, "notes.txt")) else ""
meta = dict(property=pid, origin="fresh sub-agent given only the property text and a scratch worktree", notes=notes)
json.dump(meta, open(os.path.join(dst, "meta.json"), "w"), indent=1)
print("ingested", dst)
