"""C17 bounded stand-in (never counted as proved): the contract of LocalDataset.__init__ / execute_result_async written from the
property statement and checked at run time on the REAL code, with the stand-in python_on_whales of /verif/stubs recording the
docker request and playing every container outcome of the bound:
  file lists: 1..3 files, same directory / two directories (every position of the odd one), str / Path / single value, a missing
  file at every position, the empty list;  images: dataset image:tag, docker metadata (one or two declarations);  output
  directory: given / default;  3 backends (their cache volumes);  container outcomes: success, DockerException at the run call,
  at every output chunk (0..n) and after the last one, success without a result file.
Oracle per case: error before any container starts / exactly one run with the right image, command, volumes, file list /
result copied to the output directory with this run's content / error propagates and nothing is returned / the temporary
working directory is gone afterwards in every case."""
import asyncio
import itertools
import json
import os
import shutil
import sys
import tempfile
from pathlib import Path

HERE = os.path.dirname(os.path.abspath(__file__))
sys.path.insert(0, os.path.join(os.path.dirname(HERE), "stubs"))
import python_on_whales as POW  # noqa: E402  (the stand-in)

TIER = os.environ.get("VERIF_TIER", "quick")
results = []


def datasets():
    from func_adl_xAOD.atlas.xaod.local_dataset import xAODDataset
    from func_adl_xAOD.cms.aod.local_dataset import CMSRun1AODDataset
    from func_adl_xAOD.cms.miniaod.local_dataset import CMSRun2miniAODDataset
    return [("atlas", xAODDataset, "Jets", [("func_adl_atlas_xaod_calibration_cache", "/xaod_calibration_cache")]),
            ("cms_aod", CMSRun1AODDataset, "Muons", None), ("cms_miniaod", CMSRun2miniAODDataset, "Muons", None)]


def cache_volumes(ds):
    return [("func_adl_" + v.docker_name, v.mount_point) for v in ds.docker_cache_volume()]


def query(ds, coll, images):
    q = ds
    for im in images:
        q = q.MetaData({"metadata_type": "docker", "image": im})
    return q.SelectMany("lambda e: e.%s('bank').Select(lambda j: j.pt())" % coll).AsROOTTTree("junk.root", "tr", ["pt"])


def run_value(q):
    "evaluate the query through the real LocalDataset.execute_result_async"
    return q.value()


def constructor_contract(work):
    evals, bad = 0, None
    from func_adl_xAOD.atlas.xaod.local_dataset import xAODDataset
    d = Path(work) / "ctor"
    d.mkdir()
    good = [d / ("f%d.root" % i) for i in range(3)]
    for g in good:
        g.write_text("x")
    missing = d / "nope.root"
    cases = [([], RuntimeError)]
    for n in (1, 2, 3):
        for conv in (str, lambda p: p):
            cases.append(([conv(p) for p in good[:n]], None))
        for pos in range(n):
            fl = list(good[:n])
            fl[pos] = missing
            cases.append((fl, FileNotFoundError))
    cases.append((str(good[0]), None))
    cases.append((good[0], None))
    cases.append((missing, FileNotFoundError))
    for files, exc in cases:
        evals += 1
        try:
            ds = xAODDataset(files, docker_image="img", docker_tag="t1")
            if exc is not None:
                bad = bad or ("LocalDataset(%r) was accepted, expected %s" % (files, exc.__name__), dict(files=[str(f) for f in files] if isinstance(files, list) else str(files)))
                continue
            want = [Path(f) for f in (files if isinstance(files, list) else [files])]
            if ds.files != want or ds._docker_image != "img:t1":
                bad = bad or ("LocalDataset(%r): files %r image %r" % (files, ds.files, ds._docker_image), dict(files=[str(f) for f in want]))
        except Exception as e:  # noqa
            if exc is None or not isinstance(e, exc):
                bad = bad or ("LocalDataset(%r) raised %r, expected %s" % (files, e, exc.__name__ if exc else "acceptance"), dict(files=str(files)))
    results.append(dict(name="C17/LocalDataset.__init__/bounded:file_validation", kind="bounded", status="violation" if bad else "ok", evaluations=evals, distinct=evals, exhaustive=True,
                        bound="empty list; 1..3 existing files as str and as Path; one missing file at every position; single str / Path / missing Path",
                        detail=bad[0] if bad else "", input=bad[1] if bad else None))


def execution_contract(work):
    evals, bad = 0, None
    samples = []
    base = Path(work) / "data"
    d1, d2 = base / "d1", base / "d2"
    d1.mkdir(parents=True)
    d2.mkdir(parents=True)
    files1 = [d1 / ("a%d.root" % i) for i in range(3)]
    files2 = [d2 / ("b%d.root" % i) for i in range(3)]
    for f in files1 + files2:
        f.write_text("x")
    out_given = Path(work) / "out"
    out_given.mkdir()
    chunks = [("stdout", b"line 1\n"), ("stderr", b"warn\n"), ("stdout", b"done\n")]
    outcomes = [dict(name="success")] + [dict(name="fail_on_call", fail_on_call=True)] + [dict(name="fail_at_%d" % k, fail_at=k) for k in range(len(chunks) + 1)] + \
               [dict(name="no_result_file", produce_result=False)]
    # long outputs: the failure may come after any amount of output (sizes on a geometric scale, stdout and stderr mixed)
    kib = b"x" * 1023 + b"\n"
    big = [("stdout" if i % 3 else "stderr", kib) for i in range(300)]
    outcomes += [dict(name="fail_after_%d_KiB" % k, fail_at=k, chunks=big) for k in (8, 63, 64, 65, 128, 300)] + \
                [dict(name="fail_after_one_4MiB_chunk", fail_at=1, chunks=[("stdout", b"y" * (4 << 20)), ("stdout", b"z")])] + \
                [dict(name="success_long_output", chunks=big)]
    file_lists = []
    for n in (1, 2, 3):
        file_lists.append((files1[:n], True))
        for pos in range(n):
            if n > 1:
                fl = list(files1[:n])
                fl[pos] = files2[pos]
                file_lists.append((fl, False))
    image_sets = [[], ["override/img:9"], ["first/img:1", "second/img:2"]]
    run_no = 0
    for (backend, cls, coll, _), (files, same_dir), images, outdir in itertools.product(datasets(), file_lists, image_sets, (None, out_given)):
        ocs = outcomes if (same_dir and (TIER != "quick" or (len(files) <= 2 and len(images) <= 1))) else outcomes[:1]
        if TIER == "quick" and not same_dir and (images or outdir is not None):
            continue
        for oc in ocs:
            run_no += 1
            content = ("RESULT-%d" % run_no).encode()
            POW.reset(**dict(dict(chunks=list(chunks), result_content=content), **{k: v for k, v in oc.items() if k != "name"}))
            case = dict(backend=backend, files=[str(f) for f in files], images=images, output_directory=str(outdir) if outdir else None, container=oc["name"])
            tmp_default = Path(tempfile.gettempdir())
            want_out = (outdir or tmp_default) / "ANALYSIS.root"
            if want_out.exists():
                want_out.unlink()
            ds = cls(list(files), docker_image="base/img", docker_tag="7", output_directory=outdir)
            before = set(os.listdir(tempfile.gettempdir()))
            err, val = None, None
            try:
                val = run_value(query(ds, coll, images))
            except Exception as e:  # noqa
                err = e
            evals += 1
            if len(samples) < 3 and (oc["name"] != "success" or images):
                samples.append(dict(case, docker_calls=list(POW.CALLS), filelist=POW.OBSERVED.get("filelist"), raised=type(err).__name__ if err else None,
                                    returned=[str(v) for v in val] if isinstance(val, list) else val))
            msgs = []
            run_dir = POW.OBSERVED.get("run_dir")
            if run_dir and os.path.exists(run_dir):
                msgs.append("the temporary working directory %s still exists" % run_dir)
            left = [x for x in set(os.listdir(tempfile.gettempdir())) - before if x.startswith("tmp")]
            if left:
                msgs.append("left-over temporary entries %r" % left)
                for x in left:
                    shutil.rmtree(os.path.join(tempfile.gettempdir(), x), ignore_errors=True)
            if not same_dir:
                if not isinstance(err, RuntimeError):
                    msgs.append("files from two directories: expected RuntimeError, got %r / value %r" % (err, val))
                if POW.CALLS:
                    msgs.append("a container was started although the files do not share one directory")
            else:
                if len(POW.CALLS) != 1:
                    msgs.append("%d containers started, expected exactly one" % len(POW.CALLS))
                else:
                    c = POW.CALLS[0]
                    # with several docker declarations the statement does not say which one wins: any declared image is accepted
                    want_image = images if images else ["base/img:7"]
                    if c["image"] not in want_image:
                        msgs.append("image %r, expected %s" % (c["image"], " or ".join(map(repr, want_image))))
                    if c["command"] != ["/scripts/runner.sh"]:
                        msgs.append("command %r" % (c["command"],))
                    want_vol = [(run_dir, "/scripts", "ro"), (run_dir, "/results", "rw"), (str(files[0].parent), "/data/", "ro")] + cache_volumes(ds)
                    if c["volumes"] != [tuple(str(x) for x in v) for v in want_vol]:
                        msgs.append("volumes %r, expected %r" % (c["volumes"], want_vol))
                    if not (c["remove"] and c["stream"]):
                        msgs.append("remove/stream flags %r/%r" % (c["remove"], c["stream"]))
                    want_list = "".join("/data/%s\n" % f.name for f in files)
                    if POW.OBSERVED.get("filelist") != want_list:
                        msgs.append("filelist.txt %r, expected %r" % (POW.OBSERVED.get("filelist"), want_list))
                    if "runner.sh" not in (POW.OBSERVED.get("scripts") or []):
                        msgs.append("the package is not in the /scripts mount: %r" % (POW.OBSERVED.get("scripts"),))
                if oc["name"].startswith("success"):
                    if err is not None:
                        msgs.append("successful container, but %r was raised" % (err,))
                    elif not (isinstance(val, list) and len(val) == 1 and Path(val[0]) == want_out):
                        msgs.append("returned %r, expected [%s]" % (val, want_out))
                    elif not want_out.exists() or want_out.read_bytes() != content:
                        msgs.append("the returned file does not hold this run's result")
                elif oc["name"].startswith("fail"):
                    if not isinstance(err, POW.exceptions.DockerException):
                        msgs.append("container failure (%s): expected the DockerException to propagate, got error %r / value %r" % (oc["name"], err, val))
                    if want_out.exists():
                        msgs.append("container failure (%s) but a result file was delivered" % oc["name"])
                else:
                    if err is None:
                        msgs.append("container produced no result file but %r was returned" % (val,))
            if want_out.exists():
                want_out.unlink()
            if msgs and not bad:
                bad = ("; ".join(msgs), case)
    results.append(dict(name="C17/execute_result_async/bounded:docker_request_and_outcomes", kind="bounded", status="violation" if bad else "ok", evaluations=evals, distinct=evals,
                        exhaustive=TIER != "quick",
                        bound="3 backends x file lists (1..3 files, one directory or one file elsewhere at each position) x docker metadata (0,1,2) x output directory (default, given) "
                              "x container outcomes (success, failure at the call, at each of 3 chunks, after the last, after 8..300 KiB and after one 4 MiB chunk of output, no result file)%s" % (" [quick: outcomes only for <=2 files and <=1 metadata]" if TIER == "quick" else ""),
                        detail=bad[0] if bad else "", input=bad[1] if bad else None, samples=samples))


def sequence_contract(work):
    """several queries on ONE dataset object: each run uses the image of ITS OWN query (docker metadata if present, else the dataset's image:tag),
    its own file list and delivers its own result -- whatever the earlier runs on the same object declared or did (failed containers included)."""
    evals, bad, samples = 0, None, []
    d = Path(work) / "seqdata"
    d.mkdir()
    files = [d / ("s%d.root" % i) for i in range(2)]
    for f in files:
        f.write_text("x")
    out = Path(work) / "seqout"
    out.mkdir()
    chunks = [("stdout", b"line\n")]
    steps_pool = [dict(images=[], oc={}), dict(images=["override/a:1"], oc={}), dict(images=["override/b:2"], oc={}), dict(images=["override/c:3"], oc=dict(fail_at=0)),
                  dict(images=[], oc=dict(fail_on_call=True))]
    seqs = [s for n in (2, 3) for s in itertools.product(range(len(steps_pool)), repeat=n)]
    if TIER == "quick":
        seqs = [s for s in seqs if len(s) == 2] + [(1, 3, 0), (1, 0, 2), (3, 1, 0), (4, 1, 0)]
    for backend, cls, coll, _ in datasets():
        for seq in seqs:
            ds = cls(list(files), docker_image="base/img", docker_tag="7", output_directory=out)
            for k, si in enumerate(seq):
                st = steps_pool[si]
                content = ("SEQ-%s-%d" % ("".join(map(str, seq)), k)).encode()
                POW.reset(**dict(dict(chunks=list(chunks), result_content=content), **st["oc"]))
                want_out = out / "ANALYSIS.root"
                if want_out.exists():
                    want_out.unlink()
                err, val = None, None
                try:
                    val = run_value(query(ds, coll, st["images"]))
                except Exception as e:  # noqa
                    err = e
                evals += 1
                msgs = []
                fails = bool(st["oc"])
                if len(POW.CALLS) != 1:
                    msgs.append("%d containers started, expected exactly one" % len(POW.CALLS))
                else:
                    want_image = st["images"] if st["images"] else ["base/img:7"]
                    if POW.CALLS[0]["image"] not in want_image:
                        msgs.append("step %d of the sequence %r on one dataset object ran image %r, expected %s" % (
                            k + 1, [steps_pool[i]["images"] or ["<dataset image>"] for i in seq], POW.CALLS[0]["image"], " or ".join(map(repr, want_image))))
                    if POW.OBSERVED.get("filelist") != "".join("/data/%s\n" % f.name for f in files):
                        msgs.append("filelist.txt %r" % (POW.OBSERVED.get("filelist"),))
                if fails:
                    if not isinstance(err, POW.exceptions.DockerException):
                        msgs.append("container failure: expected the DockerException to propagate, got %r / %r" % (err, val))
                elif err is not None or not (isinstance(val, list) and len(val) == 1 and Path(val[0]).read_bytes() == content):
                    msgs.append("step %d: returned %r / raised %r, expected this run's own result" % (k + 1, val, err))
                rd = POW.OBSERVED.get("run_dir")
                if rd and os.path.exists(rd):
                    msgs.append("the temporary working directory %s still exists" % rd)
                if msgs and not bad:
                    bad = ("; ".join(msgs), dict(backend=backend, sequence=[steps_pool[i] for i in seq], step=k + 1))
                if len(samples) < 2 and k == 1:
                    samples.append(dict(backend=backend, sequence=list(seq), docker_calls=list(POW.CALLS)))
    results.append(dict(name="C17/execute_result_async/bounded:sequences_on_one_dataset", kind="bounded", status="violation" if bad else "ok", evaluations=evals, distinct=evals,
                        exhaustive=TIER != "quick",
                        bound="3 backends x sequences of 2%s queries on one dataset object from 5 step kinds (no docker metadata, three different overrides, one of them with a failing "
                              "container, a container failing at the call)" % (" (and four of 3)" if TIER == "quick" else " and 3"),
                        detail=bad[0] if bad else "", input=bad[1] if bad else None, samples=samples))


work = tempfile.mkdtemp(prefix="c17work_", dir=os.environ.get("VERIF_SCRATCH") or None)
# a private temporary directory: "nothing is left behind" is observed there, undisturbed by whatever else runs on the machine
_private_tmp = os.path.join(work, "tmp")
os.makedirs(_private_tmp)
os.environ["TMPDIR"] = _private_tmp
tempfile.tempdir = _private_tmp
try:
    for fn in (constructor_contract, execution_contract, sequence_contract):
        try:
            fn(work)
        except Exception as e:  # noqa
            import traceback
            results.append(dict(name="C17/bounded:" + fn.__name__, kind="bounded", status="undecided", detail="crashed: %r %s" % (e, traceback.format_exc()[-900:])))
finally:
    shutil.rmtree(work, ignore_errors=True)
print(json.dumps(dict(results=results)))
