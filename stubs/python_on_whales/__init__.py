"""Stand-in for the python_on_whales package (not installed in this sandbox, nothing can be fetched), used ONLY by the C17
check: records what LocalDataset asks docker to do and plays a scripted container outcome.  Vendored under /verif; put on
sys.path by the check, never installed into /repo or /venv."""
from pathlib import Path
from . import exceptions  # noqa: F401

CALLS = []          # one dict per docker.run
SCENARIO = dict(chunks=[("stdout", b"hello\n")], fail_at=None, fail_on_call=False, produce_result=True, result_name="ANALYSIS.root",
                result_content=b"RESULT")
OBSERVED = {}       # what the stub saw inside the mounted directories at run time


def reset(**kw):
    CALLS.clear()
    OBSERVED.clear()
    SCENARIO.update(dict(chunks=[("stdout", b"hello\n")], fail_at=None, fail_on_call=False, produce_result=True,
                         result_name="ANALYSIS.root", result_content=b"RESULT"))
    SCENARIO.update(kw)


class _Docker:
    def run(self, image, command=None, volumes=None, remove=False, stream=False, **kw):
        call = dict(image=image, command=list(command or []), volumes=[tuple(str(x) for x in v) for v in (volumes or [])], remove=remove, stream=stream, extra=sorted(kw))
        CALLS.append(call)
        scripts = next((Path(v[0]) for v in (volumes or []) if v[1] == "/scripts"), None)
        results = next((Path(v[0]) for v in (volumes or []) if v[1] == "/results"), None)
        if scripts is not None:
            OBSERVED["run_dir"] = str(scripts)
            fl = scripts / "filelist.txt"
            OBSERVED["filelist"] = fl.read_text() if fl.exists() else None
            OBSERVED["scripts"] = sorted(p.name for p in scripts.iterdir())
        if SCENARIO["fail_on_call"]:
            raise exceptions.DockerException(["docker", "run"], 125)

        def gen():
            for i, ch in enumerate(SCENARIO["chunks"]):
                if SCENARIO["fail_at"] is not None and i == SCENARIO["fail_at"]:
                    raise exceptions.DockerException(["docker", "run"], 1)
                yield ch
            if SCENARIO["fail_at"] is not None and SCENARIO["fail_at"] >= len(SCENARIO["chunks"]):
                raise exceptions.DockerException(["docker", "run"], 1)
            if SCENARIO["produce_result"] and results is not None:
                (results / SCENARIO["result_name"]).write_bytes(SCENARIO["result_content"])
        return gen()


docker = _Docker()
