"""C15 static obligation + bounded render: the job-option additions are iterated exactly once, one line per item, between the
creation of the job and the creation of the algorithm in the real ATestRun_eljob.py."""
import json, os, sys
sys.path.insert(0, os.path.dirname(os.path.abspath(__file__)))
from templates import slot_info, region_ok
import render as R2
results = []
rel, var = "atlas/r21/ATestRun_eljob.py", "job_option_additions"
try:
    loops = slot_info(rel, var)
    ok1 = len(loops) == 1
    results.append(dict(name="C15/template:exactly_one_loop", kind="static", status="ok" if ok1 else "violation",
                        detail="" if ok1 else "%s is iterated by %d loops" % (var, len(loops))))
    if ok1:
        results.append(dict(name="C15/template:one_line_per_item_unfiltered", kind="static", status="ok" if loops[0]["plain_once"] else "violation"))
        ok, info = region_ok(rel, var, r"job\.sampleHandler\(sh\)", r"createAlgorithm\(")
        results.append(dict(name="C15/template:between_job_and_algorithm", kind="static", status="ok" if ok else "violation", detail="" if ok else info))
    n = 40 if os.environ.get("VERIF_TIER", "quick") == "quick" else 600
    bad, evals = None, 0
    for info in R2.cases(n, int(os.environ.get("VERIF_SEED", "0") or 0)):
        info = {k: ["%s<%s%d>" % (v, k, i) for i, v in enumerate(vs)] for k, vs in info.items()}
        text = R2.render("func_adl_xAOD/template/atlas/r21", "ATestRun_eljob.py", info)
        evals += 1
        msg = R2.check_slot(text, info[var], "ATestRun_eljob.py slot " + var)
        if msg and not bad:
            bad = (msg, info[var])
    results.append(dict(name="C15/bounded:render_special_characters", kind="bounded", status="violation" if bad else "ok", evaluations=evals, distinct=evals,
                        bound="9 singleton special strings + %d random mixtures of 0..3 lines" % n, exhaustive=False, detail=bad[0] if bad else "", input=bad[1] if bad else None))
    if os.environ.get("VERIF_TIER", "quick") == "thorough":
        # the pigeonhole lemma behind pigeonhole(set, dict) is re-checked by Lean (independent of the SMT transcription)
        import subprocess
        lem = os.path.join(os.path.dirname(os.path.dirname(os.path.abspath(__file__))), "lemmas", "Sets.lean")
        p = subprocess.run(["lake", "env", "lean", lem], cwd="/opt/veriftools/mathlib4", capture_output=True, text=True, timeout=900)
        ok = p.returncode == 0 and "error" not in (p.stdout + p.stderr)
        results.append(dict(name="C15/lemma:lean_sets", kind="static", status="ok" if ok else "undecided", detail=(p.stdout + p.stderr)[-300:]))
except Exception as e:  # noqa
    results.append(dict(name="C15/template", kind="static", status="undecided", detail="crashed: %r" % (e,)))
print(json.dumps(dict(results=results)))
