# C11 -- injected C++ functions are applied hygienically at every call site.  (also C06, C02)
CAQ = "func_adl_xAOD.common.cpp_ast."
CALL = RefOf("ast.Call")


def is_attr(n):
    return isinst(n, "ast.Attribute")


def is_name(n):
    return isinst(n, "ast.Name")


contract(CAQ + "build_CPPCodeValue", props=["C11", "C09"], replay={"no-raise[ValueError]": "dropped_call_arguments"},
         params=dict(spec=CPPCodeSpecification, call_node=CALL), result=CALL,
         requires=["field(call_node, 'func') != None and live(field(call_node, 'func'))",
                   ("call_style_known", "is_attr(field(call_node, 'func')) or is_name(field(call_node, 'func'))"),
                   "implies(is_attr(field(call_node, 'func')), field(field(call_node, 'func'), 'value') != None and live(field(field(call_node, 'func'), 'value')))"],
         modifies=["func", "include_files", "link_libraries", "initialization_code", "running_code", "args@" + CCV, "replacement_instance_obj",
                   "result", "result_rep", "fields@" + CCV, "alloc"],
         raises={"ValueError": "len(field(call_node, 'args')) != len(spec.arguments) or len(field(call_node, 'keywords')) > 0 or "
                               "(is_attr(field(call_node, 'func')) and spec.method_object == None) or "
                               "(is_name(field(call_node, 'func')) and spec.method_object != None)"},
         may_raise=["AttributeError"],
         ensures=[("same_call", "result == call_node and seq_eq(field(call_node, 'args'), old(field(call_node, 'args')))"),
                  ("code_value", "is_new(field(call_node, 'func')) and cls_is(field(call_node, 'func'), '" + CCV + "')"),
                  ("carries_specification", "seq_eq(field(field(call_node, 'func'), 'include_files'), spec.include_files) and "
                                            "seq_eq(field(field(call_node, 'func'), 'args', '" + CCV + "'), spec.arguments) and "
                                            "seq_eq(field(field(call_node, 'func'), 'running_code'), spec.code) and "
                                            "field(field(call_node, 'func'), 'result') == spec.result and "
                                            "len(field(field(call_node, 'func'), 'fields', '" + CCV + "')) == 0 and "
                                            "len(field(field(call_node, 'func'), 'link_libraries')) == 0"),
                  ("receiver_bound", "implies(spec.method_object != None, field(field(call_node, 'func'), 'replacement_instance_obj') == "
                                     "(spec.method_object, field(field(old(field(call_node, 'func')), 'value'), 'id'))) and "
                                     "implies(spec.method_object == None, field(field(call_node, 'func'), 'replacement_instance_obj') == None)"),
                  ("only_this_call", "frame('func', call_node)")])


# ---- property lemma (ghost client, verified by executing the REAL build_CPPCodeValue body and then calling the closure it stored):
# the result of an injected function is delivered in a fresh variable of the declared return type, value or collection.
def client_result_variable(spec, call_node, scope):
    node = repo("func_adl_xAOD.common.cpp_ast.build_CPPCodeValue")(spec, call_node)
    v = node.func.result_rep(scope)
    return v


contract("spec:c11_inject.client_result_variable", props=["C11"], inline_callees=["func_adl_xAOD.common.cpp_ast.build_CPPCodeValue"],
         params=dict(spec=CPPCodeSpecification, call_node=CALL, scope=RefOf(SCOPE)), result=VAL,
         requires=["field(call_node, 'func') != None and live(field(call_node, 'func'))", "scope != None and live(scope)",
                   "is_attr(field(call_node, 'func')) or is_name(field(call_node, 'func'))",
                   "implies(is_attr(field(call_node, 'func')), field(field(call_node, 'func'), 'value') != None and live(field(field(call_node, 'func'), 'value')))"],
         modifies=["func", "include_files", "link_libraries", "initialization_code", "running_code", "args@" + CCV, "replacement_instance_obj",
                   "result", "result_rep", "fields@" + CCV, "alloc", "global:func_adl_xAOD.common.cpp_vars.unique_var_index"],
         may_raise=["ValueError", "AttributeError"], strict=False,
         ensures=[("fresh_variable", "result != None and is_new(result) and field(result, '_scope') == scope and "
                                     "startswith(expr_of(result), spec.name) and unique_var_index == old(unique_var_index) + 1"),
                  ("value_of_declared_type", "implies(not spec.cpp_return_is_collection, cls_is(result, 'func_adl_xAOD.common.cpp_representation.cpp_variable') and "
                                             "kind_of(result) == spec.cpp_return_type.name and field(type_of(result), '_p_depth') == spec.cpp_return_type.pointer_depth)"),
                  ("collection_of_declared_type", "implies(spec.cpp_return_is_collection, cls_is(result, 'func_adl_xAOD.common.cpp_representation.cpp_collection') and "
                                                  "isinst(type_of(result), 'func_adl_xAOD.common.cpp_types.collection') and "
                                                  "field(field(type_of(result), '_element_type'), '_type', 'func_adl_xAOD.common.cpp_types.terminal') == spec.cpp_return_type.name)")])

# ---- process_ast_node (cpp_ast.py:206-278): result declared outside, code in its own block, arguments substituted ----
uninterpreted("subst_words", [Str, TList(TTup([Str, Str]))], Str)
contract(CAQ + "_replace_names", assumed=True, pure_fn="subst_words", params=dict(line=Str, repl_list=TList(TTup([Str, Str]))), result=Str,
         note="a deterministic function of the line and the (name, C++ text) pairs; that it IS the simultaneous whole-word substitution "
              "(regular expressions over str) is decided by the bounded stand-in checks/c11.py on the real code, not by this contract")
contract("re.escape", assumed=True, params=dict(pattern=Str), result=Str)
contract("verif.closure.result_rep", assumed=True, params=dict(scope=RefOf(SCOPE)), result=VAL, fresh_result=False,
         modifies=["alloc", "global:func_adl_xAOD.common.cpp_vars.unique_var_index"],
         ensures=["result != None and is_new(result) and isinst(result, 'func_adl_xAOD.common.cpp_representation.cpp_value') and "
                  "field(result, '_scope') == scope and type_of(result) != None and live(type_of(result))", "unique_var_index >= old(unique_var_index)"],
         note="CPPCodeValue.result_rep(scope): a fresh variable of the declared type, as proved for the closures built by build_CPPCodeValue "
              "(client_result_variable) -- for CPPCodeValue nodes built elsewhere (event collections, isNonnull) see their own contracts")

contract(TR + "query_ast_visitor.resolve_id", assumed=True, params=dict(self=QV, id=Str), result=Ref, modifies=["alloc", "rep"],
         note="argument_stack lookup (func_adl) or a top-level namespace: an ast node or None")

PAN_MODS = CVC_MODIFIES
PAN_INV = CVC_LOOP_INV + [
    ("P.result_declared", "g_b0 != None and contains(field(g_b0, '_variables'), result_rep)"),
    ("P.includes", "all(contains(field(gc, '_include_files'), i) for i in field(cpp_ast_node, 'include_files')) and "
                   "all(contains(field(gc, '_link_libraries'), i) for i in field(cpp_ast_node, 'link_libraries'))"),
]
PAN_BLK = [("P.block_in_place", "g_blk == blk and g_parent != None and g_pidx >= 0 and g_pidx < len(field(g_parent, '_statements')) and "
                                "field(g_parent, '_statements')[g_pidx] == g_blk and g_parent != g_blk")]
contract(CAQ + "process_ast_node", props=["C11", "C02", "C06"], aliases={"self": "visitor"},
         params=dict(visitor=QV, gc=RefOf("func_adl_xAOD.common.generated_code.generated_code"), call_node=CALL), result=VAL,
         requires=[("same_gc", "gc_of(visitor) == gc and gc != None and live(gc)"),
                   ("cursor", "len(field(gc, '_scope_stack')) >= 1 and all(b != None and live(b) for b in field(gc, '_scope_stack'))"),
                   ("node", "field(call_node, 'func') != None and live(field(call_node, 'func')) and cls_is(field(call_node, 'func'), '" + CCV + "') and "
                            "field(field(call_node, 'func'), 'result') != None and all(a != None and live(a) for a in field(call_node, 'args'))"),
                   ("book", "field(gc, '_book_block') != None and live(field(gc, '_book_block')) and "
                            "all(b != field(gc, '_book_block') for b in field(gc, '_scope_stack'))")],
         modifies=CVC_MODIFIES + ["alloc"], may_raise=["Exception"], strict=False,
         local_sorts=dict(g_b0=RefOf(BLOCK), repl_list=TList(TTup([Str, Str])), g_blk=RefOf(BLOCK), g_parent=RefOf(BLOCK), g_pidx=Int, g_off=Int),
         ghost_init=["g_b0 = top_block(field(gc, '_scope_stack'))", "g_blk = None", "g_parent = None", "g_pidx = 0", "g_off = 0"],
         ghost={"before:for#3": ["g_off = len(repl_list)"], "after:visitor._gc.add_statement(blk)": ["g_blk = blk", "g_parent = field(gc, '_scope_stack')[len(field(gc, '_scope_stack')) - 2]",
                                                         "g_pidx = len(field(g_parent, '_statements')) - 1"]},
         ensures=[("result_variable@C11,C02", "result != None and is_new(result) and type_of(result) != None"),
                  ("declared_before_the_arguments_are_evaluated@C02,C11", "contains(field(final_g_b0, '_variables'), result) and "
                                                                         "final_g_b0 == old(top_block(field(gc, '_scope_stack')))"),
                  ("own_block@C11", "final_g_blk != None and is_new(final_g_blk) and cls_is(final_g_blk, 'func_adl_xAOD.common.statement.block') and "
                                    "field(final_g_parent, '_statements')[final_g_pidx] == final_g_blk"),
                  ("one_statement_per_code_line_then_the_result@C11", "len(field(final_g_blk, '_statements')) == len(field(field(call_node, 'func'), 'running_code')) + 1 and "
                                                                     "cls_is(field(final_g_blk, '_statements')[len(field(final_g_blk, '_statements')) - 1], 'func_adl_xAOD.common.statement.set_var') and "
                                                                     "field(field(final_g_blk, '_statements')[len(field(final_g_blk, '_statements')) - 1], '_target') == result"),
                  ("every_code_line_with_the_arguments_substituted@C11", "all(cls_is(field(final_g_blk, '_statements')[k], 'func_adl_xAOD.common.statement.arbitrary_statement') and "
                                                                         "field(field(final_g_blk, '_statements')[k], '_line') == "
                                                                         "subst_words(field(field(call_node, 'func'), 'running_code')[k], final_repl_list) "
                                                                         "for k in range(0, len(field(field(call_node, 'func'), 'running_code'))))"),
                  ("method_object_first@C11", "len(final_repl_list) >= final_g_off and final_g_off <= 1 and "
                                              "(final_g_off == 1) == (field(field(call_node, 'func'), 'replacement_instance_obj') != None)"),
                  ("formals_paired_with_actuals_in_order@C11", "all(final_repl_list[final_g_off + k][0] == field(field(call_node, 'func'), 'args', '" + CCV + "')[k] "
                                                               "for k in range(0, len(final_repl_list) - final_g_off))"),
                  ("includes_added@C11,C06", "all(contains(field(gc, '_include_files'), i) for i in field(field(call_node, 'func'), 'include_files')) and "
                                             "all(contains(field(gc, '_link_libraries'), i) for i in field(field(call_node, 'func'), 'link_libraries'))")],
         loops={1: dict(modifies=["_include_files"], invariant=[("I1", "all(contains(field(gc, '_include_files'), field(cpp_ast_node, 'include_files')[k]) for k in range(0, _i))"),
                                                                ("I1p", "prefix_of(old(field(gc, '_include_files')), field(gc, '_include_files'))")]),
                2: dict(modifies=["_link_libraries"], invariant=[("I2", "all(contains(field(gc, '_link_libraries'), field(cpp_ast_node, 'link_libraries')[k]) for k in range(0, _i))"),
                                                                 ("I2p", "prefix_of(old(field(gc, '_link_libraries')), field(gc, '_link_libraries'))")]),
                3: dict(modifies=PAN_MODS, sorts=dict(repl_list=TList(TTup([Str, Str]))),
                        invariant=PAN_INV + [("I3.pairs", "len(repl_list) == g_off + _i and g_off <= 1 and "
                                                          "all(repl_list[g_off + k][0] == field(cpp_ast_node, 'args')[k] for k in range(0, _i))")]),
                4: dict(modifies=["_statements"], invariant=PAN_BLK + [("I4", "len(field(blk, '_statements')) == _i"), ("I4.lines", "all(cls_is(field(blk, '_statements')[k], 'func_adl_xAOD.common.statement.arbitrary_statement') and field(field(blk, '_statements')[k], '_line') == subst_words(field(cpp_ast_node, 'running_code')[k], repl_list) for k in range(0, _i))")]),
                5: dict(modifies=["_class_vars", "_statements"],
                        invariant=PAN_BLK + [("I6", "len(field(blk, '_statements')) == len(field(cpp_ast_node, 'running_code')) and field(gc, '_book_block') != blk"),
                                             ("I6.lines", "all(cls_is(field(blk, '_statements')[k], 'func_adl_xAOD.common.statement.arbitrary_statement') and field(field(blk, '_statements')[k], '_line') == subst_words(field(cpp_ast_node, 'running_code')[k], repl_list) for k in range(0, len(field(cpp_ast_node, 'running_code'))))")])})
# ---- call-site discovery of injected functions, methods and collections (cpp_ast_finder.visit_Call) ---------------------------------------------------
CAF = "func_adl_xAOD.common.cpp_ast.cpp_ast_finder"
uninterpreted("callback_result", [Func, Ref], Ref)   # ghost: what a registered callback returns for a call node (the callbacks are build_CPPCodeValue /
#                                                       get_collection closures, each under its own contract; here only WHICH callback is applied matters)
contract("verif.closure._method_names", assumed=True, params=dict(call_node=Ref), result=Ref, modifies=["func", "alloc"],
         note="a callback of the call-site table applied to a call node: an abstract result (the callbacks themselves are verified separately)")
contract(CAF + ".visit_Call", props=["C11", "C06"], params=dict(self=RefOf(CAF), node=RefOf("ast.Call")), result=Ref,
         requires=["field(node, 'func') != None and live(field(node, 'func'))",
                   "implies(cls_is(field(node, 'func'), 'ast.Attribute'), field(field(node, 'func'), 'value', 'ast.Attribute') != None and live(field(field(node, 'func'), 'value', 'ast.Attribute')))"],
         modifies=["ghost:gv_log", "func", "args", "alloc"], may_raise=["Exception"], strict=False,
         ensures=[("children_first@C11", "len(gv_log) >= len(old(gv_log)) + 1 and gv_log[len(old(gv_log))] == node"),
                  ("only_registered_names_are_rewritten@C11,C06",
                   "implies(not ((cls_is(old(field(node, 'func')), 'ast.Name') and field(old(field(node, 'func')), 'id') in field(self, '_method_names', '" + CAF + "')) or "
                   "(cls_is(old(field(node, 'func')), 'ast.Attribute') and cls_is(field(old(field(node, 'func')), 'value', 'ast.Attribute'), 'ast.Name') and "
                   " field(old(field(node, 'func')), 'attr') in field(self, '_method_names', '" + CAF + "'))), result == node)"),
                  ("table_untouched", "field(self, '_method_names', '" + CAF + "') == old(field(self, '_method_names', '" + CAF + "'))")])
