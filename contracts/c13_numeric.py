# C13 -- arithmetic follows Python numerics on the declared value types.
UT = "func_adl_xAOD.common.utils."


def rank(k):
    "widening order of the arithmetic kinds"
    return 0 if k == "int" else (1 if k == "float" else 2)


def arith(k):
    return k == "int" or k == "float" or k == "double"


def tkind(t):
    return field(t, "_type", "func_adl_xAOD.common.cpp_types.terminal")


contract(UT + "most_accurate_type", props=["C13", "C12"], replay="most_accurate_type",
         params=dict(type_list=TList(RefOf("func_adl_xAOD.common.cpp_types.terminal"))),
         result=RefOf("func_adl_xAOD.common.cpp_types.terminal"),
         raises={"AssertionError": "len(type_list) == 0 or any(not arith(tkind(t)) for t in type_list)"},
         ensures=[("member", "any(result == t for t in type_list)"),
                  ("widest", "all(rank(tkind(result)) >= rank(tkind(t)) for t in type_list)")])
