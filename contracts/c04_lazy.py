# C04 / C13 / C01 -- conditional expression and boolean operators are lowered to guarded blocks.
IFEXP = RefOf("ast.IfExp")
BLK = "func_adl_xAOD.common.statement."


def top_block(stack):
    return stack[len(stack) - 1]


def last_stmt(b):
    return field(b, "_statements")[len(field(b, "_statements")) - 1]


contract(TR + "query_ast_visitor.visit_IfExp", props=["C04", "C13", "C01", "C02"], replay="conditional_structure",
         params=dict(self=QV, node=IFEXP),
         requires=CVC_REQUIRES + [("parts", "field(node, 'test') != None and field(node, 'body') != None and field(node, 'orelse') != None"),
                                  ("cursor", "len(cursor(self)) >= 1 and all(b != None and live(b) for b in cursor(self))")],
         modifies=CVC_MODIFIES, may_raise=["Exception"], strict=False,
         ghost_init=["g_if = None", "g_if_parent = None", "g_if_index = 0", "g_else = None", "g_else_parent = None", "g_else_index = 0",
                     "g_sv1 = None", "g_sv2 = None", "g_body_rep = None", "g_else_rep = None"],
         local_sorts=dict(g_if=Ref, g_if_parent=Ref, g_else=Ref, g_else_parent=Ref, g_sv1=Ref, g_sv2=Ref, g_body_rep=Ref, g_else_rep=Ref,
                          g_if_index=Int, g_else_index=Int),
         ghost={
             "after:self._gc.add_statement(statement.iftest(": [
                 "g_if = top_block(cursor(self))", "g_if_parent = cursor(self)[len(cursor(self)) - 2]",
                 "g_if_index = len(field(g_if_parent, '_statements')) - 1"],
             "after:self._gc.add_statement(statement.set_var(result, self.get_rep(node.body)": [
                 "g_sv1 = last_stmt(top_block(cursor(self)))"],
             "after:self._gc.add_statement(statement.elsephrase(": [
                 "g_else = top_block(cursor(self))", "g_else_parent = cursor(self)[len(cursor(self)) - 2]",
                 "g_else_index = len(field(g_else_parent, '_statements')) - 1"],
             "after:self._gc.add_statement(statement.set_var(result, self.get_rep(node.orelse)": [
                 "g_sv2 = last_stmt(top_block(cursor(self)))"],
         },
         ensures=CVC_ENSURES + [
             ("result_variable@C13,C04", "rep_of(node) != None and is_new(rep_of(node)) and cls_is(rep_of(node), 'func_adl_xAOD.common.cpp_representation.cpp_variable') "
                                         "and kind_of(rep_of(node)) == 'double' and field(rep_of(node), '_initial_value') == None"),
             ("declared_in_the_enclosing_block_before_the_test@C02,C01,C04",
              "contains(field(top_block(old(cursor(self))), '_variables'), rep_of(node)) and seq_eq(stack_of(scope_of(rep_of(node))), old(cursor(self)))"),
             ("if_block@C04", "final_g_if != None and is_new(final_g_if) and cls_is(final_g_if, '" + BLK + "iftest') and "
                              "field(final_g_if, '_expr') == final_test_expr"),
             ("else_block@C04", "final_g_else != None and is_new(final_g_else) and cls_is(final_g_else, '" + BLK + "elsephrase')"),
             ("else_pairs_with_if@C04,C13", "final_g_else_parent == final_g_if_parent and final_g_else_index > final_g_if_index and "
                                            "field(final_g_if_parent, '_statements')[final_g_if_index] == final_g_if and "
                                            "field(final_g_if_parent, '_statements')[final_g_else_index] == final_g_else"),
             ("arms_assign_result@C13", "cls_is(final_g_sv1, '" + BLK + "set_var') and field(final_g_sv1, '_target') == rep_of(node) and "
                                        "cls_is(final_g_sv2, '" + BLK + "set_var') and field(final_g_sv2, '_target') == rep_of(node)"),
             ("cursor_restored@C01,C04", "seq_eq(cursor(self), old(cursor(self)))"),
         ])


def old_rep_of_test(node):
    return field(field(node, "test"), "rep")


# ---- boolean operators: every operand after the first is evaluated only under a guard on the result so far (short circuit) ----
BOOLOP = RefOf("ast.BoolOp")
_BO_GUARD = ("cls_is(top_block(cursor(self)), '" + BLK + "iftest') and is_new(top_block(cursor(self))) and "
             "field(top_block(cursor(self)), '_expr') == check")
_BO_ASSIGN = ("cls_is(last_stmt(top_block(cursor(self))), '" + BLK + "set_var') and field(last_stmt(top_block(cursor(self))), '_target') == result and "
              "field(last_stmt(top_block(cursor(self))), '_value') == rep_v")
contract(TR + "query_ast_visitor.visit_BoolOp", props=["C04", "C01", "C02"],
         params=dict(self=QV, node=BOOLOP),
         requires=CVC_REQUIRES + [("operands", "field(node, 'op') != None and len(field(node, 'values')) >= 2 and all(v != None and live(v) for v in field(node, 'values'))"),
                                  ("cursor", "len(cursor(self)) >= 1 and all(b != None and live(b) for b in cursor(self))")],
         modifies=CVC_MODIFIES, may_raise=["Exception"], strict=False,
         local_sorts=dict(g_k=Int, g_nguards=Int, g_ok=Bool, g_guards_ok=Bool, g_assign_ok=Bool, result=VAL, check=VAL),
         ghost_init=["g_k = 0", "g_nguards = 0", "g_ok = True", "g_guards_ok = True", "g_assign_ok = True"],
         ghost={"after:self._gc.add_statement(statement.iftest(check))": ["g_nguards = g_nguards + 1", "g_guards_ok = g_guards_ok and " + _BO_GUARD],
                "after:rep_v = self.get_rep(v)": ["g_ok = g_ok and (g_k == 0 or g_nguards == g_k)", "g_k = g_k + 1"],
                "after:self._gc.add_statement(statement.set_var(result, rep_v))": ["g_assign_ok = g_assign_ok and " + _BO_ASSIGN]},
         ensures=CVC_ENSURES + [
             ("result_variable@C04,C02", "rep_of(node) != None and is_new(rep_of(node)) and cls_is(rep_of(node), 'func_adl_xAOD.common.cpp_representation.cpp_variable') "
                                         "and kind_of(rep_of(node)) == 'bool' and contains(field(top_block(old(cursor(self))), '_variables'), rep_of(node))"),
             ("guard_tests_the_result_so_far@C04", "expr_of(final_check) == (expr_of(rep_of(node)) if cls_is(field(node, 'op'), 'ast.And') else '!' + expr_of(rep_of(node)))"),
             ("every_later_operand_evaluated_under_its_own_guard@C04", "final_g_ok and final_g_k == len(field(node, 'values')) and "
                                                                       "final_g_nguards == len(field(node, 'values')) - 1 and final_g_guards_ok"),
             ("every_operand_assigned_to_the_result@C04", "final_g_assign_ok"),
             ("cursor_restored@C01,C04", "seq_eq(cursor(self), old(cursor(self)))"),
         ],
         loops={1: dict(modifies=CVC_MODIFIES, ghost_mods=["g_k", "g_nguards", "g_ok", "g_guards_ok", "g_assign_ok"],
                        invariant=CVC_LOOP_INV + [
                            ("B.counts", "g_k == _i and g_nguards == (_i - 1 if _i >= 1 else 0) and g_ok and g_guards_ok and g_assign_ok and first == (_i == 0)"),
                            ("B.cursor", "implies(_i >= 2, seq_eq(cursor(self), stack_of(scope))) and seq_eq(stack_of(scope), old(cursor(self))) and "
                                         "len(cursor(self)) >= 1 and all(b != None and live(b) for b in cursor(self))"),
                            ("B.result", "result != None and live(result) and contains(field(top_block(old(cursor(self))), '_variables'), result) and "
                                         "check != None and live(check)")])})
