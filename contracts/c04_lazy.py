# C04 / C13 / C01 -- conditional expression and boolean operators are lowered to guarded blocks.
IFEXP = RefOf("ast.IfExp")
BLK = "func_adl_xAOD.common.statement."


def top_block(stack):
    return stack[len(stack) - 1]


def last_stmt(b):
    return field(b, "_statements")[len(field(b, "_statements")) - 1]


contract(TR + "query_ast_visitor.visit_IfExp", props=["C04", "C13", "C01"],
         params=dict(self=QV, node=IFEXP),
         requires=CVC_REQUIRES + [("parts", "field(node, 'test') != None and field(node, 'body') != None and field(node, 'orelse') != None"),
                                  ("cursor", "len(cursor(self)) >= 1 and all(b != None and live(b) for b in cursor(self))")],
         modifies=CVC_MODIFIES, may_raise=["Exception"], strict=False,
         ghost_init=["g_if = None", "g_if_parent = None", "g_if_index = 0", "g_else = None", "g_else_parent = None", "g_else_index = 0",
                     "g_sv1 = None", "g_sv2 = None", "g_body_rep = None", "g_else_rep = None"],
         local_sorts=dict(g_if=Ref, g_if_parent=Ref, g_else=Ref, g_else_parent=Ref, g_sv1=Ref, g_sv2=Ref, g_body_rep=Ref, g_else_rep=Ref,
                          g_if_index=Int, g_else_index=Int),
         ghost={
             "after:self._gc.add_statement(statement.iftest(": [
                 "g_if = top_block(cursor(self))", "g_if_parent = cursor(self)[len(cursor(self)) - 2]",
                 "g_if_index = len(field(g_if_parent, '_statements')) - 1"],
             "after:self._gc.add_statement(statement.set_var(result, self.get_rep(node.body)": [
                 "g_sv1 = last_stmt(top_block(cursor(self)))"],
             "after:self._gc.add_statement(statement.elsephrase(": [
                 "g_else = top_block(cursor(self))", "g_else_parent = cursor(self)[len(cursor(self)) - 2]",
                 "g_else_index = len(field(g_else_parent, '_statements')) - 1"],
             "after:self._gc.add_statement(statement.set_var(result, self.get_rep(node.orelse)": [
                 "g_sv2 = last_stmt(top_block(cursor(self)))"],
         },
         ensures=CVC_ENSURES + [
             ("result_variable@C13,C04", "rep_of(node) != None and is_new(rep_of(node)) and cls_is(rep_of(node), 'func_adl_xAOD.common.cpp_representation.cpp_variable') "
                                         "and kind_of(rep_of(node)) == 'double' and field(rep_of(node), '_initial_value') == None"),
             ("if_block@C04", "final_g_if != None and is_new(final_g_if) and cls_is(final_g_if, '" + BLK + "iftest') and "
                              "field(final_g_if, '_expr') == final_test_expr"),
             ("else_block@C04", "final_g_else != None and is_new(final_g_else) and cls_is(final_g_else, '" + BLK + "elsephrase')"),
             ("else_pairs_with_if@C04,C13", "final_g_else_parent == final_g_if_parent and final_g_else_index > final_g_if_index and "
                                            "field(final_g_if_parent, '_statements')[final_g_if_index] == final_g_if and "
                                            "field(final_g_if_parent, '_statements')[final_g_else_index] == final_g_else"),
             ("arms_assign_result@C13", "cls_is(final_g_sv1, '" + BLK + "set_var') and field(final_g_sv1, '_target') == rep_of(node) and "
                                        "cls_is(final_g_sv2, '" + BLK + "set_var') and field(final_g_sv2, '_target') == rep_of(node)"),
             ("cursor_restored@C01,C04", "seq_eq(cursor(self), old(cursor(self)))"),
         ])


def old_rep_of_test(node):
    return field(field(node, "test"), "rep")
