"""C13 bounded stand-in (never counted as proved): no narrowing assignment in the generated statement tree.
Every assignment `target = value` the real translator generates for a pool of probe queries (arithmetic, conditionals, aggregates whose
update lambda contains conditionals on the accumulator, Sum/Min/Max/Count, boolean results) is inspected AFTER the whole query has been
translated (types can be widened late: visit_call_Aggregate_initial): the declared C++ kind of the target must be at least as wide as the
kind of the value (bool < int < float < double), else the value is truncated on the way -- "sums/min/max and general aggregates accumulate
in a type at least as wide as every value folded in, a conditional yields its arm's value"."""
import json, logging, os, sys, tempfile
from pathlib import Path
logging.disable(logging.CRITICAL)
results = []
RANK = {"bool": 0, "int": 1, "float": 2, "double": 3}
PROBES = [
    "lambda e: e.Jets('A').Select(lambda j: j.pt()).Sum()",
    "lambda e: e.Jets('A').Select(lambda j: j.pt()).Max()",
    "lambda e: e.Jets('A').Select(lambda j: j.pt()).Min()",
    "lambda e: e.Jets('A').Count()",
    "lambda e: e.Jets('A').Select(lambda j: 1).Sum()",
    "lambda e: e.Jets('A').Select(lambda j: j.pt()).Aggregate(0, lambda acc, v: acc + v)",
    "lambda e: e.Jets('A').Select(lambda j: j.pt()).Aggregate(0, lambda acc, v: (acc if acc < 100000 else 100000) + v)",
    "lambda e: e.Jets('A').Select(lambda j: j.pt()).Aggregate(0, lambda acc, v: (acc + v) if v > 10 else acc)",
    "lambda e: e.Jets('A').Select(lambda j: j.pt()).Aggregate(0, lambda acc, v: (0 if acc > 5 else acc) + v / 2)",
    "lambda e: e.Jets('A').Select(lambda j: 1 if j.pt() > 10 else 0)",
    "lambda e: e.Jets('A').Select(lambda j: 1 if j.pt() > 10 else j.eta())",
    "lambda e: e.Jets('A').Select(lambda j: (1 if j.pt() > 10 else 0) + j.eta())",
    "lambda e: e.Jets('A').Select(lambda j: j.pt() > 10 and j.eta() < 2)",
    "lambda e: e.Jets('A').Select(lambda j: e.Tracks('T').Count() if j.pt() > 10 else 0)",
    "lambda e: e.Jets('A').Select(lambda j: e.Tracks('T').Select(lambda t: t.pt()).Sum() if j.pt() > 10 else 0)",
]
try:
    import func_adl_xAOD.common.statement as statement
    from func_adl import EventDataset
    from func_adl_xAOD.common.ast_to_cpp_translator import query_ast_visitor
    from func_adl_xAOD.atlas.xaod.executor import atlas_xaod_executor

    class _DS(EventDataset):
        async def execute_result_async(self, a, title):
            return a

    def blocks_of(root):
        yield root
        for s in root._statements:
            if isinstance(s, statement.block):
                yield from blocks_of(s)
    roots = []
    real_emit = query_ast_visitor.emit_query

    def spy(self, e):
        roots.append(self._gc._block)
        return real_emit(self, e)
    query_ast_visitor.emit_query = spy
    bad, n_assign, n_ok = [], 0, 0
    for q in PROBES:
        roots.clear()
        try:
            exe = atlas_xaod_executor()
            with tempfile.TemporaryDirectory() as d:
                exe.write_cpp_files(exe.apply_ast_transformations(_DS().Select(q).value()), Path(d))
        except Exception:
            continue
        n_ok += 1
        for root in roots:
            for b in blocks_of(root):
                for s in b._statements:
                    if isinstance(s, statement.set_var):
                        try:
                            kt, kv = s._target.cpp_type().type, s._value.cpp_type().type
                            pt, pv = s._target.cpp_type().p_depth, s._value.cpp_type().p_depth
                        except Exception:
                            continue
                        if kt in RANK and kv in RANK and pt == 0 and pv == 0:
                            n_assign += 1
                            if RANK[kt] < RANK[kv]:
                                bad.append("%s: `%s = %s;` stores a %s value in a variable declared %s" % (q, s._target.as_cpp(), s._value.as_cpp(), kv, kt))
    query_ast_visitor.emit_query = real_emit
    results.append(dict(name="C13/bounded:no_narrowing_assignment", kind="bounded", status="violation" if bad else "ok" if n_assign > 10 else "undecided",
                        detail="; ".join(bad[:2]) if bad else "%d numeric assignments in %d translated probes" % (n_assign, n_ok), input=bad[:3] or None,
                        bound="%d probe queries through the real ATLAS executor" % len(PROBES), evaluations=n_assign, distinct=n_ok, exhaustive=False))
except Exception as e:  # noqa
    results.append(dict(name="C13/bounded:no_narrowing_assignment", kind="bounded", status="undecided", detail="stand-in crashed: %r" % (e,)))
print(json.dumps(dict(results=results)))
