"""Driver: ./check <property> --tier quick|thorough  ->  obligations, verdict protocol, evidence, replays."""
from __future__ import annotations
import argparse
import glob
import hashlib
import importlib.util
import json
import os
import re
import subprocess
import sys
import time
import traceback
import z3

from .core import *
from .ops import Unsupported, truth
from .front import Repo
from .contract import Registry
from .engine import Exec, BindError
from .sym import Obligation
from . import smt
from . import replay as replay_mod

ROOT = os.path.dirname(os.path.dirname(os.path.abspath(__file__)))
VENV_PY = "/venv/bin/python"


def load_registry():
    reg = Registry()
    files = sorted(glob.glob(os.path.join(ROOT, "contracts", "*.py")))
    files.sort(key=lambda p: (0 if os.path.basename(p) == "schema.py" else 1 if os.path.basename(p).startswith("shared") else 2, p))
    # development aid: extra contract files under development (never set by the registered commands)
    files += [x for x in os.environ.get("PYVC_EXTRA_CONTRACTS", "").split(":") if x]
    for f in files:
        reg.load(f)
    return reg


def load_known():
    p = os.path.join(ROOT, "known_findings.json")
    if not os.path.exists(p):
        return []
    with open(p) as f:
        return json.load(f).get("findings", [])


def clause_props(label):
    "label 'name@C03,C05' -> ('name', {'C03','C05'}) ; no suffix -> all properties of the contract"
    if "@" in label:
        n, ps = label.split("@", 1)
        return n, set(ps.split(","))
    return label, None


class PropertyRun:
    def __init__(self, pid, tier, seed, jobs=8, timeout=20):
        self.pid = pid
        self.tier = tier
        self.seed = seed
        self.jobs = jobs
        self.timeout = timeout if tier == "quick" else timeout * 3
        if os.environ.get("PYVC_TIMEOUT"):  # development aid, never set by the registered commands
            self.timeout = int(os.environ["PYVC_TIMEOUT"])
        self.t0 = time.time()
        self.reg = load_registry()
        self.repo = Repo()
        Repo.spec_modules = self.reg.spec_modules
        # (findings reported by a bounded stand-in carry "bounded": <check name> and are handled by that stand-in, checks/<id>.py)
        self.known = [k for k in load_known() if k["property"] == pid and not k.get("fixed") and not k.get("bounded")]
        self.fixed = [k for k in load_known() if k["property"] == pid and k.get("fixed")]
        self.functions = []
        self.undecided = []
        self.violations = []
        self.known_reported = []
        self.obls = []
        self.canaries = {}
        self.assumptions = set()
        self.extra_checks = []  # static / bounded results
        self.execs = {}
        self._searched = {}
        self._driver_cache = {}
        self.out_of_subset = []  # contracts whose function could not be executed symbolically on this tree
        self.bounded_search = []

    # ------------------------------------------------------------------ deductive part
    def contracts(self):
        only = os.environ.get("PYVC_ONLY")  # development aid (never set by the registered commands): restrict to matching functions
        return [c for c in self.reg.contracts.values() if self.pid in c.props and not c.assumed and (not only or any(x in c.key for x in only.split(",")))]

    def generate(self):
        for c in self.contracts():
            ex = Exec(self.repo, self.reg, self.pid)
            for k in self.known:
                if k.get("region") and k["obligation"].split("/")[0] == ex.short(c.qn) + ("#" + c.key.split("#")[1] if "#" in c.key else ""):
                    lab = k["obligation"].split(":", 1)[1]
                    ex.regions.setdefault((k["obligation"].split("/")[0], lab), []).append(k["region"])
            t0 = time.time()
            info = dict(qn=c.key, file=None, sha256=None, obligations=0, paths=0, status="ok", gen_s=0.0)
            try:
                found = self.repo.find(c.qn)
                if found is not None:
                    info["file"] = os.path.relpath(found[2].path, self.repo.root)
                n = ex.verify_function(c)
                info["paths"] = n
                info["sha256"] = ex.sha.get(c.qn)
                # canary: one unprovable goal per function; must NOT be discharged
                can = []
                # up to four exit points spread over the paths of the function (the first three alone all belong to the first path)
                exits = [o for o in ex.obligations if o.kind in ("ensures", "raises", "post")]
                picks = sorted({int(round(k * (len(exits) - 1) / 3.0)) for k in range(4)}) if exits else []
                for ix in picks:
                    o = exits[ix]
                    can.append(Obligation("%s/%s/canary:false" % (self.pid, ex.cur_fn), "canary", "false", o.assumptions, z3.BoolVal(False), ex.cur_fn))
                obls = []
                for o in ex.obligations:
                    lab, ps = clause_props(o.label)
                    if ps is not None and self.pid not in ps:
                        continue
                    o.label = lab
                    o.name = "%s/%s/%s:%s" % (self.pid, o.fn, o.kind, lab)
                    o.axioms = ex.axioms
                    o.contract = c
                    obls.append(o)
                for o in can:
                    o.axioms = ex.axioms
                    o.contract = c
                info["obligations"] = len(obls)
                deps = {c.qn: info["sha256"]}
                info["sha256"] = ex.sha.get(c.qn)
                for q in sorted(ex.inlined):
                    f2 = self.repo.find(q)
                    if f2 is not None:
                        deps[q] = self.repo.seg_sha(f2[2], f2[1])
                info["deps_sha"] = deps
                self.obls.extend(obls)
                self.canaries[c.key] = can
                self.execs[c.key] = ex
                self.execs.setdefault(c.qn, ex)
                for a in ex.assumed_contracts:
                    self.assumptions.add("assumed contract (not verified against a body): " + a)
                for a in sorted(ex.inlined):
                    if a != c.qn:
                        self.assumptions.add("inlined real body in place of a contract: " + a)
                for w in ex.warnings:
                    self.assumptions.add(w)
                for lab, anchor in getattr(ex, "skipped_clauses", []) or []:
                    lab0, ps = clause_props(lab)
                    if ps is None or self.pid in ps:
                        self.undecided.append(dict(obligation="%s/%s/ensures:%s" % (self.pid, ex.cur_fn, lab0),
                                                   reason="not checked: the clause speaks about ghost state anchored at the statement `%s...`, which the function no longer contains" % anchor[:60]))
                        self.out_of_subset.append(c)
            except (Unsupported, BindError) as e:
                if os.environ.get("PYVC_DEBUG"):
                    traceback.print_exc()
                info["status"] = "undecided"
                self.undecided.append(dict(function=c.qn, reason="%s: %s" % (type(e).__name__, e)))
                self.out_of_subset.append(c)
            except Exception as e:  # the engine failed on this function's (possibly edited) source: undecided for this function, never a verdict
                if os.environ.get("PYVC_DEBUG"):
                    traceback.print_exc()
                info["status"] = "undecided"
                self.undecided.append(dict(function=c.qn, reason="engine error while executing the function symbolically: %s: %s" % (type(e).__name__, str(e)[:200])))
                self.out_of_subset.append(c)
            info["gen_s"] = round(time.time() - t0, 2)
            self.functions.append(info)

    def discharge(self):
        allo = list(self.obls)
        for cs in self.canaries.values():
            allo.extend(cs)
        from concurrent.futures import ThreadPoolExecutor

        def work(o):
            txt = smt.to_smt2(o.axioms, o.assumptions, o.goal)
            o.smt2 = txt
            return o, txt

        prepared = [work(o) for o in allo]

        def run(item):
            o, txt = item
            to = self.timeout if o.kind != "canary" else min(5, self.timeout)
            r = smt.solve(txt, to)
            o.result, o.backend, o.time, o.raw, o.tried = r["verdict"], r["backend"], r["time"], r["raw"], r["tried"]
            return o

        with ThreadPoolExecutor(max_workers=self.jobs) as ex:
            list(ex.map(run, prepared))

    # ------------------------------------------------------------------ verdicts
    def groups(self):
        g = {}
        for o in self.obls:
            g.setdefault(o.name, []).append(o)
        return g

    def decide(self):
        broken = []
        for qn, cs in self.canaries.items():
            if cs and all(c.result == "unsat" for c in cs):
                broken.append("canary of %s was discharged: contradictory assumptions / vacuous proof" % qn)
        if self.contracts() and not self.obls and not self.undecided:
            broken.append("zero obligations generated")
        self.broken = broken
        base = self.load_baseline()
        from concurrent.futures import ThreadPoolExecutor
        # undecided by every back end: (1) the query without its quantified assumptions -- unsat there is unsat of the full
        # query, sat there is only a candidate; (2) one retry with a larger budget.  Both rounds run in the pool; at most three
        # instances of one named obligation are retried (a fourth undecided instance decides nothing new).
        pend = []
        for name, os_ in self.groups().items():
            if any(o.result == "sat" for o in os_):
                continue
            pend.extend([o for o in os_ if o.result != "unsat"][:3])

        for o in pend:  # z3's API is not thread safe: all printing happens here, the pool only runs solver processes
            o.rtxt = smt.to_smt2_relaxed(o.axioms, o.assumptions, o.goal)

        def relaxed(o):
            rr = smt.solve(o.rtxt, self.timeout)
            o.tried = o.tried + [("relaxed:" + str(b), v, t) for b, v, t in rr["tried"]]
            if rr["verdict"] == "unsat":
                o.result, o.backend, o.time = "unsat", "relaxed/" + str(rr["backend"]), o.time + rr["time"]
            elif rr["verdict"] == "sat":
                o.candidate = rr["raw"]

        def retry(o):
            if o.result == "unsat":
                return
            r = smt.solve(o.smt2, self.timeout * 2)
            o.result, o.backend, o.time, o.raw = r["verdict"], r["backend"], o.time + r["time"], r["raw"]
            o.tried = o.tried + r["tried"]

        def last_resort(o):
            # a third round, few at a time (so that a loaded machine cannot flip the verdict), other random seeds, 6x budget
            for seed in (7, 23):
                if o.result in ("unsat", "sat"):
                    return
                r = smt.solve(o.smt2, self.timeout * 3, seed=seed)
                o.result, o.backend, o.time, o.raw = r["verdict"], r["backend"], o.time + r["time"], r["raw"]
                o.tried = o.tried + [("seed%d:%s" % (seed, b), v, t) for b, v, t in r["tried"]]

        if pend:
            with ThreadPoolExecutor(max_workers=max(2, self.jobs // 2)) as ex:
                list(ex.map(relaxed, pend))
                list(ex.map(retry, pend))
            still = [o for o in pend if o.result not in ("unsat", "sat")]
            # many obligations still open = the code changed, not solver noise: the extra round is for the odd flaky one
            if still and len(still) <= 6:
                with ThreadPoolExecutor(max_workers=3) as ex:
                    list(ex.map(last_resort, still))
        for name, os_ in self.groups().items():
            if all(o.result == "unsat" for o in os_):
                continue
            sat = [o for o in os_ if o.result == "sat"]
            if sat:
                self.handle_failed(name, sat[0], "refuted")
                continue
            o = [o for o in os_ if o.result != "unsat"][0]
            changed = self.changed_since_baseline(base, o.contract.key)
            if base is not None and name in base.get("discharged", []) and changed:
                # passed on the pinned tree, the code it depends on has changed, and it is no longer provable
                self.handle_failed(name, o, "regressed", changed)
            elif isinstance(o.contract.replay, dict) and replay_mod.driver_for(o.contract, o) and self._driver_confirms(o):
                # no back end decided it, but the contract's replay driver (a small search on the REAL code, evaluating the same
                # clause concretely) exhibits a failing input: that is a violation with a replayed input, not a proof failure
                self.handle_failed(name, o, "searched")
            else:
                self.undecided.append(dict(obligation=name, reason="no back end decided it: " + "; ".join(str(x.tried) for x in os_ if x.result != "unsat")[:600]))

    def _driver_confirms(self, o):
        key = (o.contract.key, o.name)
        if key not in self._driver_cache:
            try:
                self._driver_cache[key] = replay_mod.try_replay(self, o)
            except Exception as e:  # a crashing driver decides nothing
                self._driver_cache[key] = (False, "driver crashed: %r" % (e,), None)
        return bool(self._driver_cache[key][0])

    def fallback_drivers(self):
        """A function that left the verified subset (Unsupported / unbound contract / engine error) is undecided deductively.  Its contract's
        replay drivers -- small searches on the REAL code that evaluate clauses of the same contract concretely -- are then run as a bounded
        stand-in: a failing input is a violation with a replayed input; nothing found leaves the function undecided."""
        done = set()
        for c in self.out_of_subset:
            # value-level functions with an executable oracle of their contract: the bounded concrete search on the REAL function
            if getattr(c, "oracle", None) and not c.logical and c.qn not in self._searched:
                try:
                    ex = Exec(self.repo, self.reg, self.pid)
                    n = 3000 if self.tier == "quick" else 20000
                    f2, d2, i2, ev = replay_mod.concrete_search(self, c, ex, n, self.seed)
                except Exception as e:  # noqa
                    f2, d2, i2, ev = False, "bounded search crashed: %r" % (e,), None, 0
                self._searched[c.qn] = (f2, d2, i2, ev)
                name = "%s/%s/oracle:%s" % (self.pid, c.qn.split(".")[-1], c.oracle)
                self.extra_checks.append(dict(name="%s/bounded:oracle[%s]" % (self.pid, c.oracle), kind="bounded", status="violation" if f2 else "ok" if ev else "undecided",
                                              bound="contract oracle of %s on generated inputs (pools of the contract), run as a stand-in because the function left the verified subset" % c.qn,
                                              evaluations=ev, exhaustive=False, detail=d2))
                if f2:
                    rdir = os.path.join(ROOT, "replays", self.pid)
                    os.makedirs(rdir, exist_ok=True)
                    path = os.path.join(rdir, re.sub(r"[^A-Za-z0-9_.\-]+", "_", name.split("/", 1)[1]) + ".json")
                    with open(path, "w") as f:
                        json.dump(dict(property=self.pid, obligation=name, function=c.qn, why="the function could not be executed symbolically on this tree (outside the "
                                       "verified subset); the executable oracle of its contract fails on a generated input of the real function",
                                       replay=dict(confirmed=True, detail=d2, inputs=i2)), f, indent=1, default=str)
                    self.violations.append(dict(obligation=name, replay=path, confirmed=True, detail=d2))
            if not c.replay:
                continue
            # a driver that is the witness of a recorded known finding would report that finding again: it is not used as a stand-in
            known_drivers = {(k.get("witness") or {}).get("driver") for k in load_known() if not k.get("fixed")}
            pairs = [(None, c.replay)] if isinstance(c.replay, str) else list(c.replay.items())
            for lab, drv in pairs:
                if (c.key, drv) in done or drv in known_drivers:
                    continue
                done.add((c.key, drv))
                name = "%s/%s/%s" % (self.pid, c.qn.split(".")[-1] if "." in c.qn else c.qn, ("ensures:" + lab) if lab else "driver:" + drv)
                k = dict(witness=dict(driver=drv, args=dict(obligation=name)))
                still, detail = replay_mod.run_witness(k, repo_root=self.repo.root)
                self.extra_checks.append(dict(name="%s/bounded:driver[%s]" % (self.pid, drv), kind="bounded", status="violation" if still else "ok" if still is False else "undecided",
                                              bound="replay driver of %s run as a stand-in because the function left the verified subset" % c.qn, evaluations=1,
                                              exhaustive=False, detail=detail))
                if still:
                    rdir = os.path.join(ROOT, "replays", self.pid)
                    os.makedirs(rdir, exist_ok=True)
                    path = os.path.join(rdir, re.sub(r"[^A-Za-z0-9_.\-]+", "_", name.split("/", 1)[1]) + ".json")
                    with open(path, "w") as f:
                        json.dump(dict(property=self.pid, obligation=name, function=c.qn, why="the function could not be executed symbolically on this tree "
                                       "(outside the verified subset); the contract's replay driver found a failing input on the real code",
                                       replay=dict(confirmed=True, detail=detail, inputs=dict(driver=drv))), f, indent=1)
                    self.violations.append(dict(obligation=name, replay=path, confirmed=True, detail=detail))

    def load_baseline(self):
        p = os.path.join(ROOT, "baseline", self.pid + ".json")
        if not os.path.exists(p):
            return None
        with open(p) as f:
            return json.load(f)

    def changed_since_baseline(self, base, qn):
        if base is None:
            return []
        now = {}
        for f in self.functions:
            if f["qn"] == qn:
                now = f.get("deps_sha") or {}
        was = (base.get("functions") or {}).get(qn) or {}
        return sorted(q for q in set(now) | set(was) if now.get(q) != was.get(q))

    def write_baseline(self):
        os.makedirs(os.path.join(ROOT, "baseline"), exist_ok=True)
        g = self.groups()
        out = dict(property=self.pid,
                   discharged=sorted(n for n, os_ in g.items() if all(o.result == "unsat" for o in os_)),
                   functions={f["qn"]: f.get("deps_sha") or {} for f in self.functions})
        with open(os.path.join(ROOT, "baseline", self.pid + ".json"), "w") as f:
            json.dump(out, f, indent=1, sort_keys=True)

    def handle_failed(self, name, o, why="refuted", changed=None):
        rdir = os.path.join(ROOT, "replays", self.pid)
        os.makedirs(rdir, exist_ok=True)
        base = re.sub(r"[^A-Za-z0-9_.\-]+", "_", name.split("/", 1)[1])
        path = os.path.join(rdir, base + ".json")
        rec = dict(property=self.pid, obligation=name, function=o.contract.qn, backend=o.backend, solver_output=o.raw[:20000],
                   smt2_sha256=hashlib.sha256(o.smt2.encode()).hexdigest(), line=o.line)
        with open(os.path.join(rdir, base + ".smt2"), "w") as f:
            f.write(o.smt2)
        rec["why"] = ("the solver refuted the obligation (counter-model attached)" if why == "refuted" else
                      "no back end decided the obligation (solver output attached); the contract's replay driver found a failing input on the real code"
                      if why == "searched" else
                      "the obligation was discharged on the pinned tree (baseline/%s.json), the source it depends on has changed (%s) "
                      "and no back end can discharge it any more" % (self.pid, ", ".join(changed or [])))
        confirmed, detail, inputs = (False, "no counter-model", None)
        if why == "searched":
            confirmed, detail, inputs = self._driver_cache[(o.contract.key, o.name)]
        elif why == "refuted" or replay_mod.driver_for(o.contract, o):
            confirmed, detail, inputs = replay_mod.try_replay(self, o)
        if not confirmed:
            key = o.contract.qn
            if key not in self._searched:
                n = 400 if self.tier == "quick" else 4000
                self._searched[key] = replay_mod.concrete_search(self, o.contract, self.execs[key], n, self.seed)
            f2, d2, i2, ev = self._searched[key]
            self.bounded_search.append(dict(function=key, evaluations=ev, found=bool(f2)))
            if f2:
                confirmed, detail, inputs = True, "bounded search on the real function: " + d2, i2
            else:
                detail = detail + " | bounded search: " + d2
        rec["replay"] = dict(confirmed=confirmed, detail=detail, inputs=inputs)
        with open(path, "w") as f:
            json.dump(rec, f, indent=1, default=str)
        self.violations.append(dict(obligation=name, replay=path, confirmed=confirmed, detail=detail))

    # ------------------------------------------------------------------ known findings
    def report_known(self):
        for k in self.known:
            still, detail = replay_mod.run_witness(k)
            if still is None:
                self.undecided.append(dict(obligation=k["obligation"], reason="known-finding witness could not be replayed: " + detail))
            elif still:
                print("KNOWN-FINDING: property=%s %s" % (self.pid, k["what"]))
                self.known_reported.append(k["id"])
        for k in self.fixed:
            still, detail = replay_mod.run_witness(k)
            if still:
                path = os.path.join(ROOT, "replays", self.pid, "regression_%s.json" % k["id"])
                os.makedirs(os.path.dirname(path), exist_ok=True)
                with open(path, "w") as f:
                    json.dump(dict(property=self.pid, obligation=k["obligation"], finding=k, detail=detail), f, indent=1)
                self.violations.append(dict(obligation=k["obligation"], replay=path, confirmed=True, detail="fixed finding has returned: " + detail))

    # ------------------------------------------------------------------ extra (static / bounded) checks
    def run_extras(self):
        mod_path = os.path.join(ROOT, "checks", self.pid.lower() + ".py")
        if not os.path.exists(mod_path):
            return
        env = dict(os.environ, PYTHONPATH=self.repo.root + ":" + ROOT, VERIF_TIER=self.tier, VERIF_SEED=str(self.seed), PYVC_REPO=self.repo.root)
        p = subprocess.run([VENV_PY, mod_path], capture_output=True, text=True, env=env, cwd=ROOT, timeout=3600)
        try:
            res = json.loads(p.stdout.strip().split("\n")[-1])
        except Exception:
            self.broken.append("extra checks of %s crashed: %s" % (self.pid, (p.stderr or p.stdout)[-800:]))
            return
        for r in res["results"]:
            self.extra_checks.append(r)
            if r["status"] == "violation":
                path = os.path.join(ROOT, "replays", self.pid, re.sub(r"[^A-Za-z0-9_.\-]+", "_", r["name"]) + ".json")
                os.makedirs(os.path.dirname(path), exist_ok=True)
                with open(path, "w") as f:
                    json.dump(dict(property=self.pid, obligation=r["name"], kind=r["kind"], detail=r.get("detail"), input=r.get("input")), f, indent=1, default=str)
                if r.get("known"):
                    print("KNOWN-FINDING: property=%s %s" % (self.pid, r["known"]))
                    self.known_reported.append(r["name"])
                else:
                    self.violations.append(dict(obligation=r["name"], replay=path, confirmed=True, detail=r.get("detail", "")))
            elif r["status"] == "undecided":
                self.undecided.append(dict(obligation=r["name"], reason=r.get("detail", "")))

    # ------------------------------------------------------------------ evidence
    def evidence(self, level, level_note):
        g = self.groups()
        ded = [o for o in self.obls]
        n_inst = len(ded)
        n_dis = sum(1 for o in ded if o.result == "unsat")
        static_ok = [r for r in self.extra_checks if r["kind"] == "static" and r["status"] == "ok"]
        static_all = [r for r in self.extra_checks if r["kind"] == "static"]
        bounded = [r for r in self.extra_checks if r["kind"] == "bounded"]
        per_backend = {}
        for o in ded:
            per_backend[o.backend or "none"] = per_backend.get(o.backend or "none", 0) + 1
        slow = sorted([(round(o.time, 2), o.name) for o in ded if o.time > 1.0], reverse=True)[:10]
        samples = []
        for o in ded[:3]:
            samples.append(dict(obligation=o.name, function=o.contract.qn, goal=str(o.goal)[:400], n_assumptions=len(o.assumptions),
                                backend=o.backend, verdict=o.result, smt2_head=o.smt2[:300] if hasattr(o, "smt2") else ""))
        for r in (static_all + bounded)[:2]:
            samples.append(dict(check=r["name"], kind=r["kind"], status=r["status"], detail=str(r.get("detail", ""))[:300]))
        for r in bounded:
            for c in (r.get("samples") or [])[:3]:
                samples.append(dict(check=r["name"], case=c))
        self.assumptions.update(GLOBAL_ASSUMPTIONS)
        cov = dict(
            obligations=n_inst + len(static_all),
            discharged=n_dis + len(static_ok),
            named_obligations=len(g),
            checker_cmd="./check %s --tier %s" % (self.pid, self.tier),
            trusted_base=["pyvc VC generator (this repository, /verif/pyvc): Python-subset semantics of DESIGN 1.2",
                          "z3 5.1.0 / z3 4.8.12 / cvc5 1.0.3 (an obligation counts as discharged when one of them answers unsat)",
                          "CPython ast module (parsing of /repo sources)"] + sorted(a for a in self.assumptions if a.startswith("assumed contract")),
            functions_under_contract=self.functions,
            backends=per_backend,
            solver_time_s=dict(total=round(sum(o.time for o in ded), 2), max=round(max([o.time for o in ded] or [0]), 2), over_1s=slow),
            undecided=self.undecided,
            known_findings_reported=self.known_reported,
            excluded_regions=[dict(obligation=k["obligation"], region=k.get("region")) for k in self.known if k.get("region")],
            canaries={qn: [c.result for c in cs] for qn, cs in self.canaries.items()},
            static_obligations=[dict(name=r["name"], status=r["status"]) for r in static_all],
            bounded_checks=[dict(name=r["name"], bound=r.get("bound"), evaluations=r.get("evaluations"), exhaustive=r.get("exhaustive"),
                                 status=r["status"], label="bounded (not counted as proved)") for r in bounded],
            samples=samples,
            explanation=level_note,
            exhaustive=False,
        )
        if level in ("fault_enumeration", "exploration"):
            ev = sum(int(r.get("evaluations") or 0) for r in bounded)
            cov.update(evaluations=ev, distinct_nontrivial=sum(int(r.get("distinct") or 0) for r in bounded),
                       rule="; ".join(str(r.get("bound")) for r in bounded), exhaustive=all(r.get("exhaustive") for r in bounded) if bounded else False)
        out = dict(property_id=self.pid, tier=self.tier, seed=self.seed, level=level, coverage=cov,
                   assumptions=sorted(self.assumptions), wall_s=round(time.time() - self.t0, 2), violations=len(self.violations))
        # committed evidence describes /repo itself; runs against a scratch copy (PYVC_REPO) leave it alone
        edir = os.path.join(ROOT, "evidence") if os.path.realpath(self.repo.root) == "/repo" and not os.environ.get("PYVC_ONLY") else os.path.join(ROOT, "scratch", "evidence_other_tree")
        os.makedirs(edir, exist_ok=True)
        with open(os.path.join(edir, self.pid + ".json"), "w") as f:
            json.dump(out, f, indent=1, default=str)
        return out


GLOBAL_ASSUMPTIONS = [
    "Python ints are mathematical integers (true in CPython); str is a sequence of code points encoded as SMT-LIB String",
    "mutable containers are modelled as values: aliasing of one list/dict through two names is outside the verified subset",
    "exception message texts are not modelled; building a message is assumed not to raise",
    "closures capture the values of their free variables when they are created (a closure that reads an iteration variable freely is refused as outside the subset)",
    "recursion depth, memory exhaustion, hash/iteration order of sets are not modelled",
    "closed-world class hierarchy: the classes defined in /repo at extraction time",
    "type annotations, comments and docstrings are dropped by the extraction; everything else of a function body is kept",
    "everything inside func_adl, qastle, jinja2, re, python_on_whales, tempfile, shutil, pathlib is used only through the assumed contracts listed in trusted_base",
]


def manifest_entry(pid):
    with open(os.path.join(ROOT, "MANIFEST.json")) as f:
        m = json.load(f)
    for c in m["checks"]:
        if c["property_id"] == pid:
            return c
    return None


def main(argv=None):
    ap = argparse.ArgumentParser()
    ap.add_argument("pid")
    ap.add_argument("--tier", default=os.environ.get("VERIF_TIER", "quick"))
    ap.add_argument("--replay")
    ap.add_argument("--jobs", type=int, default=8)
    ap.add_argument("-v", action="store_true")
    ap.add_argument("--update-baseline", action="store_true", help="record the discharged obligations of the current tree (never used by registered commands)")
    a = ap.parse_args(argv)
    seed = int(os.environ.get("VERIF_SEED", "0") or 0)
    if a.replay:
        with open(a.replay) as f:
            print(f.read())
        return 0
    me = manifest_entry(a.pid)
    level = me["level_claimed"]["category"] if me else "proof"
    note = me["level_note"] if me else ""
    try:
        run = PropertyRun(a.pid, a.tier, seed, jobs=a.jobs)
        run.generate()
        run.discharge()
        run.decide()
        if a.update_baseline:
            run.write_baseline()
        run.run_extras()
        run.fallback_drivers()
        run.report_known()
        ev = run.evidence(level, note)
    except Exception:
        traceback.print_exc()
        print("CHECKER-ERROR property=%s" % a.pid)
        return 3
    cov = ev["coverage"]
    print("property %s tier %s: %d functions under contract, %d obligation instances (%d named) + %d static, %d discharged, "
          "%d bounded checks, %d undecided, %d violations, %.1fs" % (
              a.pid, a.tier, len(run.functions), len(run.obls), cov["named_obligations"], len(cov["static_obligations"]),
              cov["discharged"], len(cov["bounded_checks"]), len(run.undecided), len(run.violations), ev["wall_s"]))
    if a.v or run.undecided or run.violations:
        for u in run.undecided:
            print("  UNDECIDED %s" % json.dumps(u)[:600])
    if run.broken:
        for b in run.broken:
            print("CHECKER-BROKEN %s" % b)
        return 3
    if run.violations:
        for v in run.violations:
            print("VIOLATION property=%s replay=%s%s" % (a.pid, v["replay"], "" if v["confirmed"] else " no-failing-input-found"))
        return 1
    if run.undecided:
        return 2
    return 0


if __name__ == "__main__":
    sys.exit(main())
