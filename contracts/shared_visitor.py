# Shared vocabulary for the translator (query_ast_visitor) contracts.
P = "func_adl_xAOD.common."
TR = P + "ast_to_cpp_translator."
QV = RefOf(TR + "query_ast_visitor")
CVAL = P + "cpp_representation.cpp_value"
TERMQ = P + "cpp_types.terminal"
K_NONE, K_STR, K_INT, K_BOOL, K_FLOAT, K_OTHER = 0, 1, 2, 3, 4, 5


def rep_of(node):
    return field(node, "rep")


def expr_of(r):
    return field(r, "_expression", "func_adl_xAOD.common.cpp_representation.cpp_value")


def type_of(r):
    "the terminal object describing the C++ type of a value rep"
    return field(r, "_cpp_type", "func_adl_xAOD.common.cpp_representation.cpp_value")


def kind_of(r):
    "C++ type name of a value rep (int / float / double / bool / string / class name)"
    return field(type_of(r), "_type", "func_adl_xAOD.common.cpp_types.terminal")


def plain_value(r, text, kind):
    "r is a freshly built cpp_value with the given C++ text and a plain (non-pointer) terminal type of the given name"
    return (is_new(r) and cls_is(r, "func_adl_xAOD.common.cpp_representation.cpp_value") and expr_of(r) == text
            and is_new(type_of(r)) and cls_is(type_of(r), "func_adl_xAOD.common.cpp_types.terminal") and kind_of(r) == kind
            and field(type_of(r), "_p_depth") == 0)


def gc_of(v):
    return field(v, "_gc")


def cursor(v):
    "the translator's insertion cursor: the stack of open blocks"
    return field(gc_of(v), "_scope_stack")

# ---------------------------------------------------------------------------------------------------------------
# The common visitor contract (CVC, DESIGN 1.5).  Every call that re-enters the translator (get_rep / visit /
# as_sequence / generic dispatch) is seen by its callers only through these clauses.
UVI = "global:func_adl_xAOD.common.cpp_vars.unique_var_index"
CVC_MODIFIES = ["_statements", "_variables", "_rep_dict", "_scope_stack", "_class_vars", "_include_files", "_link_libraries",
                "rep", "scope", UVI, "alloc"]
CVC_REQUIRES = [("gc", "gc_of(self) != None and live(gc_of(self))")]
CVC_ENSURES = [
    ("cvc.monotone", "monotone('_statements') and monotone('_variables')"),
    ("cvc.scope_tokens_immutable", "stable_except('_scope_stack', gc_of(self))"),
    ("cvc.members_grow", "prefix_of(old(field(gc_of(self), '_class_vars')), field(gc_of(self), '_class_vars')) and "
                         "prefix_of(old(field(gc_of(self), '_include_files')), field(gc_of(self), '_include_files')) and "
                         "prefix_of(old(field(gc_of(self), '_link_libraries')), field(gc_of(self), '_link_libraries'))"),
    ("cvc.counter", "unique_var_index >= old(unique_var_index)"),
]

contract("func_adl.ast.func_adl_ast_utils.FuncADLNodeVisitor.visit", assumed=True,
         params=dict(self=QV, node=Ref), requires=CVC_REQUIRES, modifies=CVC_MODIFIES, may_raise=["Exception"], strict=False,
         ensures=CVC_ENSURES,
         note="external dispatch to visit_X / call_X by node class; every method under contract is verified against the CVC, "
              "the remaining ones are assumed to satisfy it")

contract("func_adl.ast.func_adl_ast_utils.FuncADLNodeVisitor.visit_Call", assumed=True,
         params=dict(self=QV, node=Ref), result=REP, requires=CVC_REQUIRES, modifies=CVC_MODIFIES, may_raise=["Exception"],
         strict=False, ensures=CVC_ENSURES)

contract("func_adl.ast.func_adl_ast_utils.FuncADLNodeVisitor.generic_visit", assumed=True,
         params=dict(self=QV, node=Ref), requires=CVC_REQUIRES, modifies=CVC_MODIFIES, may_raise=["Exception"], strict=False,
         ensures=CVC_ENSURES)

contract(TR + "query_ast_visitor.visit", props=["C01", "C09"],
         params=dict(self=QV, node=Ref), requires=CVC_REQUIRES + [("node", "node != None")], modifies=CVC_MODIFIES,
         may_raise=["Exception"], strict=False, ensures=CVC_ENSURES)

contract(TR + "query_ast_visitor.get_rep", props=["C01", "C09"],
         params=dict(self=QV, node=Ref, retain_scope=Bool), result=REP,
         requires=CVC_REQUIRES + [("node", "node != None")], modifies=CVC_MODIFIES, may_raise=["Exception"], strict=False,
         defaults=dict(retain_scope="False"),
         ensures=[("has_rep", "result != None and live(result) and field(node, 'rep') == result"),
                  ("retain_scope", "implies(retain_scope, seq_eq(cursor(self), old(cursor(self))))")] + CVC_ENSURES)


# loop invariants for loops whose body re-enters the translator: the CVC clauses relative to the function's pre-state
CVC_LOOP_INV = [("L." + lab, ex) for lab, ex in CVC_ENSURES] + [("L.gc", "gc_of(self) == old(gc_of(self)) and live(gc_of(self))")]
