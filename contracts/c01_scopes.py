# C01 (mechanisms) -- M1: scope algebra (common/util_scope.py)
US = "func_adl_xAOD.common.util_scope."
GSC = RefOf(US + "gc_scope")
TOK = RefOf(SCOPE)


def is_top(c):
    return cls_is(c, "func_adl_xAOD.common.util_scope.gc_scope_top_level")


def stack_of(c):
    return field(c, "_scope_stack")


contract(US + "gc_scope.starts_with", props=["C01"],
         params=dict(self=GSC, c=TOK), result=Bool,
         ensures=[("prefix_order", "result == (is_top(c) or prefix_of(stack_of(c), stack_of(self)))")])

contract(US + "gc_scope_top_level.starts_with", props=["C01"],
         params=dict(self=RefOf(US + "gc_scope_top_level"), c=TOK), result=Bool,
         ensures=[("only_top", "result == is_top(c)")])

contract(US + "gc_scope.__getitem__", props=["C01"],
         params=dict(self=GSC, key=Int), result=GSC,
         requires=["key < 0", "-key <= len(stack_of(self))"], modifies=["alloc"],
         raises={"RuntimeError": "len(stack_of(self)) + key == 0"},
         ensures=[("slice", "is_new(result) and cls_is(result, '" + US + "gc_scope') and len(stack_of(result)) == len(stack_of(self)) + key and "
                            "prefix_of(stack_of(result), stack_of(self))"),
                  ("self_untouched", "frame('_scope_stack', result)")])


def scope_of(v):
    "declared scope token of a value representation"
    return field(v, "_scope")


VAL = RefOf("func_adl_xAOD.common.cpp_representation.cpp_value")
contract(US + "deepest_scope", props=["C01"],
         params=dict(v1=VAL, v2=VAL), result=VAL,
         requires=["scope_of(v1) != None and scope_of(v2) != None", "live(scope_of(v1)) and live(scope_of(v2))"],
         ensures=[("one_of", "result == v1 or result == v2"),
                  ("deeper_when_comparable",
                   "implies(not is_top(scope_of(v1)) and not is_top(scope_of(v2)) and prefix_of(stack_of(scope_of(v1)), stack_of(scope_of(v2))) "
                   "and len(stack_of(scope_of(v1))) < len(stack_of(scope_of(v2))), result == v2)"),
                  ("first_when_second_is_not_deeper",
                   "implies(not is_top(scope_of(v1)) and not is_top(scope_of(v2)) and prefix_of(stack_of(scope_of(v2)), stack_of(scope_of(v1))), result == v1)"),
                  ("top_level_loses", "implies(is_top(scope_of(v1)) and not is_top(scope_of(v2)), result == v2) and implies(is_top(scope_of(v2)), result == v1)"),
                  ("pure", "unchanged('_scope_stack') and unchanged('_scope')")])
