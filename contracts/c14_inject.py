# C14 -- injected code blocks land once, in order, in their documented places.
MDQ = "func_adl_xAOD.common.meta_data."
ICB = MDQ + "InjectCodeBlock"

def InjectCodeBlock_t():
    return cls("func_adl_xAOD.common.meta_data.InjectCodeBlock")


def name_of(b):
    return b.name


contract(MDQ + "ok_to_add_code_block", props=["C14"],
         params=dict(spec=InjectCodeBlock, cpp_funcs=TList(Spec)), result=Bool,
         raises={"ValueError": "any(isinstance(b, InjectCodeBlock_t()) and name_of(b) == spec.name and b != spec and "
                               "all(not (isinstance(cpp_funcs[j], InjectCodeBlock_t()) and name_of(cpp_funcs[j]) == spec.name) for j in range(0, i)) "
                               "for i, b in enumerate(cpp_funcs))"},
         ensures=[("duplicate_counts_once", "result == (not any(b == spec for b in cpp_funcs))")],
         loops={1: dict(invariant=[("I.no_same_name_before", "all(not (isinstance(cpp_funcs[j], InjectCodeBlock_t()) and name_of(cpp_funcs[j]) == spec.name) for j in range(0, _i))")])})

# ---- per-field concatenation in block order (executor._ib_fetch and its seven accessors) ---------------------------
EXQ = "func_adl_xAOD.common.executor.executor"
EXR = RefOf(EXQ)
for _acc, _fld in [("body_include_files", "body_includes"), ("header_include_files", "header_includes"), ("private_members", "private_members"),
                   ("instance_initialization", "instance_initialization"), ("ctor_lines", "ctor_lines"), ("link_libraries", "link_libraries"),
                   ("initialize_lines", "initialize_lines")]:
    contract(EXQ + "." + _acc, props=["C14"], params=dict(self=EXR), result=TList(Str),
             ensures=[("own_field_in_block_order", "is_flattening(result, [b.%s for b in field(self, '_inject_blocks')])" % _fld)])
