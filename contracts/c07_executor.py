# executor.apply_ast_transformations / reset / __init__ (common/executor.py): serves C07, C14, C15, C06, C11.
EXQ = "func_adl_xAOD.common.executor.executor"
EXR = RefOf(EXQ)
AST_FIELDS_MOD = ["func", "args", "keywords", "value", "cpp_name", "include_files", "cpp_return_type", "fields", "alloc"]

contract("func_adl.ast.extract_metadata", assumed=True, params=dict(a=Ref), result=TTup([Ref, TList(MD)]),
         ensures=["result[0] != None and live(result[0])"], modifies=["alloc"],
         note="func_adl: strips MetaData calls from anywhere in the chain and returns them in order (external)")
contract("func_adl.ast.func_adl_ast_utils.change_extension_functions_to_calls", assumed=True, params=dict(a=Ref), result=Ref,
         ensures=["result != None and live(result)"], modifies=AST_FIELDS_MOD)
for _q in ["func_adl.ast.aggregate_shortcuts.aggregate_node_transformer", "func_adl.ast.function_simplifier.simplify_chained_calls"]:
    contract(_q, assumed=True, params={}, result=RefOf("verif.Transformer"), fresh_result=True, modifies=["alloc"],
             note="external ast.NodeTransformer subclass (func_adl)")
contract("verif.Transformer.visit", virtual=True, assumed=True, params=dict(self=Ref, node=Ref), result=Ref,
         modifies=AST_FIELDS_MOD + ["ghost:gv_log"], may_raise=["Exception"], strict=False,
         ensures=["result != None and live(result)"],
         note="ast.NodeTransformer.visit of an external or plug-in transformer: returns the (possibly rewritten) tree")

contract(EXQ + ".build_collection_callback", virtual=True, assumed=True, params=dict(self=EXR, metadata=EventCollectionSpecification), result=Func,
         may_raise=["ValueError"], strict=False, note="abstract; the three overrides are under contract in c06")

contract(EXQ + "._apply_ast_transformations", props=["C14", "C15", "C07", "C06"],
         params=dict(self=EXR, a=Ref),
         requires=[("ast", "a != None and live(a)"),
                   ("no_extended_metadata_registered", "len(field(self, '_extended_md')) == 0")],
         modifies=AST_FIELDS_MOD + ["ghost:gv_log", "_inject_blocks", "_job_option_blocks", "_found_extended_md", "_method_names@" + "func_adl_xAOD.common.cpp_ast.cpp_ast_finder",
                                    "global:func_adl_xAOD.common.cpp_types.g_method_type_dict", "global:func_adl_xAOD.common.cpp_types.g_toplevel_ns",
                                    "_type", "_p_depth", "_is_const", "_tree_type", "_element_type"],
         may_raise=["Exception"], strict=False, result=Ref,
         opaque_locals=["method_names", "extended_md_types"],
         typing_exceptions={"_method_names": "the call-site table handed to cpp_ast_finder is an opaque local of this proof (built by a dict comprehension over closures)"},
         local_sorts=dict(cpp_functions=TList(Spec)),
         ensures=[("inject_blocks_of_this_query@C14,C07", "is_filtering(field(self, '_inject_blocks'), final_cpp_functions, 'func_adl_xAOD.common.meta_data.InjectCodeBlock')"),
                  ("builtin_callables_untouched@C06,C07", "unchanged('_method_names')"),
                  ("job_blocks_appended@C15", "prefix_of(old(field(self, '_job_option_blocks')), field(self, '_job_option_blocks'))")],
         loops={1: dict(invariant=[("L1", "len(field(self, '_extended_md')) == 0")], modifies=["_found_extended_md"]),
                2: dict(invariant=[("L2.grows", "prefix_of(old(field(self, '_job_option_blocks')), field(self, '_job_option_blocks'))")],
                        modifies=["_job_option_blocks"])})

# ---- C07: the fresh translation state ----------------------------------------------------------------------------
def registries_empty():
    return len(g_method_type_dict) == 0 and len(g_toplevel_ns) == 0


def executor_fresh(self):
    "no block, script or extended metadata left over from an earlier query (found extended metadata is re-collected per query)"
    return (len(field(self, "_job_option_blocks")) == 0 and len(field(self, "_inject_blocks")) == 0 and
            len(field(self, "_extended_md")) == 0)


contract(EXQ + ".reset", props=["C07"], params=dict(self=EXR),
         modifies=["_job_option_blocks", "_inject_blocks", "_extended_md",
                   "global:func_adl_xAOD.common.cpp_types.g_method_type_dict", "global:func_adl_xAOD.common.cpp_types.g_toplevel_ns"],
         ensures=[("executor_state_fresh", "executor_fresh(self)"),
                  ("registries_empty", "registries_empty()"),
                  ("frame", "frame('_job_option_blocks', self) and frame('_inject_blocks', self) and frame('_extended_md', self)")])

# what every executor's reset() guarantees (the back ends re-add their default method types after the common reset)
RESET_MODS = ["_job_option_blocks", "_inject_blocks", "_extended_md", "alloc", "_type", "_p_depth", "_is_const", "_tree_type",
              "global:func_adl_xAOD.common.cpp_types.g_method_type_dict", "global:func_adl_xAOD.common.cpp_types.g_toplevel_ns"]
RESET_ENS = [("executor_state_fresh", "executor_fresh(self)"), ("no_namespaces_left", "len(g_toplevel_ns) == 0"),
             ("frame", "frame('_job_option_blocks', self) and frame('_inject_blocks', self) and frame('_extended_md', self)")]
ANYEX = pseudo_base("verif.AnyExecutor", [EXQ])
contract("verif.AnyExecutor.reset", virtual=True, assumed=True, params=dict(self=EXR), modifies=RESET_MODS, ensures=RESET_ENS,
         note="what self.reset() guarantees whatever the back end; each override is verified against the same clauses")
for _sub in ["func_adl_xAOD.atlas.xaod.executor.atlas_xaod_executor", "func_adl_xAOD.cms.aod.executor.cms_aod_executor",
             "func_adl_xAOD.cms.miniaod.executor.cms_miniaod_executor"]:
    contract(_sub + ".reset", props=["C07"], params=dict(self=RefOf(_sub)), modifies=RESET_MODS, ensures=RESET_ENS)

contract(EXQ + "._write_cpp_files", assumed=True, params=dict(self=EXR, ast=Ref, output_path=Ref), result=Ref,
         modifies=AST_FIELDS_MOD + ["rep", "scope", "global:func_adl_xAOD.common.cpp_vars.unique_var_index"], may_raise=["Exception"], strict=False,
         note="the translation + rendering proper (visitor under the CVC, jinja2, file system): only its frame on the executor state is used here")

# ---- the two public operations restore the fresh state on every exit ----------------------------------------------
contract(EXQ + ".write_cpp_files", props=["C07"], params=dict(self=EXR, ast=Ref, output_path=Ref), result=Ref,
         modifies=AST_FIELDS_MOD + RESET_MODS + ["rep", "scope", "global:func_adl_xAOD.common.cpp_vars.unique_var_index"], may_raise=["Exception"], strict=False,
         ensures=[("fresh_after_success", "executor_fresh(self) and len(g_toplevel_ns) == 0")],
         ensures_raise={"*": [("fresh_after_failure", "executor_fresh(self) and len(g_toplevel_ns) == 0")]})

contract(EXQ + ".apply_ast_transformations", props=["C07"], params=dict(self=EXR, a=Ref), result=Ref,
         requires=[("ast", "a != None and live(a)"), ("no_extended_metadata_registered", "len(field(self, '_extended_md')) == 0")],
         modifies=AST_FIELDS_MOD + RESET_MODS + ["ghost:gv_log", "_found_extended_md", "_method_names@func_adl_xAOD.common.cpp_ast.cpp_ast_finder", "_element_type"],
         may_raise=["Exception"], strict=False,
         ensures_raise={"*": [("fresh_after_failure", "executor_fresh(self) and len(g_toplevel_ns) == 0")]})
