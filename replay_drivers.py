"""Replay drivers: run the REAL code of /repo (PYTHONPATH is set by the caller) on concrete inputs.
Used (a) to turn a refuted obligation on a heap-shaped function into a concrete failing input (small exhaustive search
around the solver's counter-model), (b) as witnesses of known findings / fixed findings.
usage: replay_drivers.py <driver> '<json args>'   ->  last stdout line: {"violates": bool, "detail": str}"""
import json
import sys

DRIVERS = {}


def driver(f):
    DRIVERS[f.__name__] = f
    return f


def deref(e, n):
    return e if n <= 0 else "(*" + deref(e, n - 1) + ")"


def member_access(e, depth):
    return e + "." if depth <= 0 else deref(e, depth - 1) + "->"


@driver
def base_type_member_access(args):
    import func_adl_xAOD.common.cpp_representation as crep
    import func_adl_xAOD.common.cpp_types as ctyp
    from func_adl_xAOD.common.util_scope import top_level_scope
    for p in range(0, 5):
        for extra in range(0, 4):
            v = crep.cpp_value("x", top_level_scope(), ctyp.terminal("T", p_depth=p))
            got = crep.base_type_member_access(v, extra)
            want = member_access("x", p + extra)
            if got != want:
                return True, "base_type_member_access(cpp_value('x', T with p_depth=%d), extra_deref=%d) == %r, expected %r" % (p, extra, got, want)
    return False, "member access correct for p_depth 0..4 x extra_deref 0..3"


def main():
    name = sys.argv[1]
    args = json.loads(sys.argv[2]) if len(sys.argv) > 2 else {}
    try:
        v, d = DRIVERS[name](args)
        print(json.dumps({"violates": bool(v), "detail": d}))
    except Exception as e:  # noqa
        import traceback
        print(json.dumps({"violates": None, "detail": "driver crashed: " + traceback.format_exc()[-600:]}))


if __name__ == "__main__":
    main()
