# C05 / C01 / C03 -- where the value of one column is stored before the Fill (query_ast_visitor.code_fill_ttree).
# The scalar branch is verified (theorem contract: the general, assumed contract of c03_schema.py is what call sites see; the branch for
# sequences recurses through a nested closure and stays under the common visitor contract).


def starts(a, b):
    "a.starts_with(b) for scope tokens (c01_scopes.py: prefix order on block stacks, the top-level token below everything)"
    return is_top(b) if is_top(a) else (is_top(b) or prefix_of(stack_of(b), stack_of(a)))


def fill_target(e_rep, scope_fill):
    "a value is stored where it was computed when that is inside the fill scope, else at the fill scope"
    return scope_of(e_rep) if starts(scope_of(e_rep), scope_fill) else scope_fill


contract(TR + "query_ast_visitor.code_fill_ttree#scalar", props=["C05", "C01", "C03"],
         params=dict(self=QV, e_rep=VAL, e_name=VAL, scope_fill=RefOf(SCOPE)), result=RefOf(SCOPE),
         requires=CVC_REQUIRES + [("scalar_column", "e_rep != None and live(e_rep) and not isinst(e_rep, '" + P + "cpp_representation.cpp_collection')"),
                                  ("scopes", "scope_fill != None and live(scope_fill) and scope_of(e_rep) != None and live(scope_of(e_rep))"),
                                  ("storage", "e_name != None and live(e_name)"),
                                  ("cursor", "len(cursor(self)) >= 1 and all(b != None and live(b) for b in cursor(self))"),
                                  ("open_blocks", "all(b != None and live(b) for b in stack_of(scope_fill)) and len(stack_of(scope_fill)) >= 1 and "
                                                  "all(b != None and live(b) for b in stack_of(scope_of(e_rep))) and len(stack_of(scope_of(e_rep))) >= 1")],
         modifies=["_scope_stack", "_statements", "_target", "_value", "alloc"],
         local_sorts=dict(g_blk=RefOf(BLOCK), g_n=Int), ghost_init=["g_blk = None", "g_n = 0"],
         ghost={"after:self._gc.add_statement(statement.set_var(e_name, e_rep))": ["g_blk = top_block(cursor(self))", "g_n = len(field(g_blk, '_statements')) - 1"]},
         ensures=[("stored_at_its_own_scope_or_the_fill_scope@C05,C01",
                   "seq_eq(cursor(self), (old(cursor(self))[0:1] if is_top(fill_target(e_rep, scope_fill)) else stack_of(fill_target(e_rep, scope_fill))))"),
                  ("one_assignment_of_the_value_to_the_column@C03,C05",
                   "final_g_blk != None and final_g_blk == top_block(cursor(self)) and len(field(final_g_blk, '_statements')) == final_g_n + 1 and "
                   "final_g_n == len(old(field(final_g_blk, '_statements'))) and "
                   "cls_is(last_stmt(final_g_blk), '" + BLK + "set_var') and is_new(last_stmt(final_g_blk)) and "
                   "field(last_stmt(final_g_blk), '_target') == e_name and field(last_stmt(final_g_blk), '_value') == e_rep"),
                  ("fill_scope_only_deepens@C05,C01",
                   "result == scope_fill or (is_new(result) and seq_eq(stack_of(result), cursor(self)) and starts(result, scope_fill))"),
                  ("nothing_else_written", "monotone('_statements') and stable_except('_scope_stack', gc_of(self))")])
