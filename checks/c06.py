"""C06 bounded stand-in (never counted as proved): end-to-end through the REAL executors.
Every built-in collection of every backend x 3 bank names x {alone, paired with every other collection of the backend (both
orders), twice with different banks}: the generated source retrieves exactly that bank as that collection's container type
with the backend's idiom, asks for the container's headers (and libraries, ATLAS), declares one token per use (miniAOD), and
treats singleton collections as values.  Plus metadata-declared collections (replace a built-in, other-backend refusal,
malformed calls).  Bound: stated per result."""
import itertools
import json
import os
import re
import sys

sys.path.insert(0, os.path.dirname(os.path.dirname(os.path.abspath(__file__))))
import replay_drivers as RD  # noqa: E402

TIER = os.environ.get("VERIF_TIER", "quick")
results = []
BANKS = ["AntiKt4EMTopoJets", "b_1", "slimmed:X"]


def tables():
    from func_adl_xAOD.atlas.xaod.event_collections import atlas_xaod_collections
    from func_adl_xAOD.cms.aod.event_collections import cms_aod_collections
    from func_adl_xAOD.cms.miniaod.event_collections import cms_miniaod_collections
    return {"atlas": atlas_xaod_collections, "cms_aod": cms_aod_collections, "cms_miniaod": cms_miniaod_collections}


def is_seq(spec):
    from func_adl_xAOD.common.event_collections import event_collection_collection_container
    return isinstance(spec.container_type, event_collection_collection_container)


def use(spec, bank):
    "a query fragment using the collection: count its elements, or (singleton) hand it to a method"
    if is_seq(spec):
        return "e.%s('%s').Count()" % (spec.name, bank)
    return "e.%s('%s').runNumber()" % (spec.name, bank)


def source(files):
    return "\n".join(t for n, t in sorted(files.items()) if n.endswith((".cxx", ".cc", ".h", ".txt", ".py", ".xml")))


def check_use(backend, spec, bank, text, where):
    "returns a message when the retrieval of (spec, bank) is not in the generated source as the backend's idiom demands"
    ct = str(spec.container_type)
    q = '"%s"' % bank
    if backend == "atlas":
        if not re.search(re.escape(ct) + r"\s+result\s*=\s*0\s*;", text):
            return "%s: no declaration `%s result = 0;`" % (where, ct)
        if "ANA_CHECK (evtStore()->retrieve(result, %s));" % q not in text:
            return "%s: no status-checked `ANA_CHECK (evtStore()->retrieve(result, %s));`" % (where, q)
        for lib in spec.libraries:
            if not re.search(r"\b" + re.escape(lib) + r"\b", text):
                return "%s: link library %s is not requested" % (where, lib)
    elif backend == "cms_aod":
        if not re.search(re.escape(ct) + r"\s+result\s*;", text):
            return "%s: no declaration `%s result;`" % (where, ct)
        if "iEvent.getByLabel(%s, result);" % q not in text:
            return "%s: no `iEvent.getByLabel(%s, result);`" % (where, q)
    else:
        if not re.search(re.escape(ct) + r"\s+result\s*;", text):
            return "%s: no declaration `%s result;`" % (where, ct)
        inits = re.findall(r"(\w+)\s*=\s*consumes<" + re.escape(spec.container_type.type) + r">\(edm::InputTag\(" + re.escape(q) + r"\)\)", text)
        if len(inits) < 1:
            return "%s: no token initialised with consumes<%s>(edm::InputTag(%s))" % (where, spec.container_type.type, q)
        for tok in inits:
            if len(re.findall(r"\b" + tok + r"\s*=\s*consumes<", text)) != 1:
                return "%s: token %s is initialised more than once" % (where, tok)
            if len(re.findall(r"EDGetTokenT<[^;]*>\s+" + tok + r"\s*;", text)) != 1:
                return "%s: token %s is not declared exactly once" % (where, tok)
            if not re.search(r"EDGetTokenT<" + re.escape(spec.container_type.type) + r">\s+" + tok + r"\s*;", text):
                return "%s: token %s is not declared with the container type %s" % (where, tok, spec.container_type.type)
            if "iEvent.getByToken(%s, result);" % tok not in text:
                return "%s: token %s is never read with getByToken" % (where, tok)
    for inc in spec.include_files:
        if inc not in text:
            return "%s: header %s is not requested" % (where, inc)
    return None


def builtin_collections():
    evals, bad = 0, None
    tabs = tables()
    for backend, tab in tabs.items():
        cases = []
        for spec in tab:
            for bank in BANKS:
                cases.append([(spec, bank)])
            cases.append([(spec, BANKS[0]), (spec, BANKS[1])])
        pairs = list(itertools.permutations(tab, 2))
        if TIER == "quick":
            pairs = pairs[::3]
        for a, b in pairs:
            cases.append([(a, BANKS[0]), (b, BANKS[1])])
        for uses in cases:
            if len(uses) == 1:
                q = "lambda e: %s" % use(*uses[0])
                cols = ["c0"]
            else:
                q = "lambda e: (%s)" % ", ".join(use(s, bk) for s, bk in uses)
                cols = ["c%d" % i for i in range(len(uses))]
            try:
                info, files = RD.translate(RD._dataset().Select(q).AsROOTTTree("f.root", "t", cols), backend)
            except Exception as e:  # noqa
                if not is_seq(uses[0][0]) or (len(uses) > 1 and not is_seq(uses[1][0])):
                    continue  # singleton without a runNumber method in this backend's type table: not this check's subject
                bad = bad or ("%s: query %s raised %r" % (backend, q, e), dict(backend=backend, query=q))
                continue
            evals += 1
            text = source(files)
            for s, bk in uses:
                msg = check_use(backend, s, bk, text, "%s query `%s`, collection %s bank %s" % (backend, q, s.name, bk))
                if msg and not bad:
                    bad = (msg, dict(backend=backend, query=q))
            if backend == "cms_miniaod":
                toks = re.findall(r"iEvent\.getByToken\((\w+), result\);", text)
                if len(set(toks)) != len(uses) and not bad:
                    bad = ("%s query `%s`: %d collection uses read through %d distinct tokens %r" % (backend, q, len(uses), len(set(toks)), toks), dict(backend=backend, query=q))
            for s, bk in uses:
                if not is_seq(s) and re.search(r"for\s*\(auto\s*&&?\s*\w+\s*:\s*\*?result\)", text) and all(not is_seq(x) for x, _ in uses) and not bad:
                    bad = ("%s query `%s`: singleton collection %s is iterated" % (backend, q, s.name), dict(backend=backend, query=q))
    results.append(dict(name="C06/bounded:builtin_collections_end_to_end", kind="bounded", status="violation" if bad else "ok", evaluations=evals, distinct=evals, exhaustive=False,
                        bound="every built-in collection x 3 banks alone, twice with two banks, and %s ordered pairs per backend, 3 backends" % ("every third" if TIER == "quick" else "all"),
                        detail=bad[0] if bad else "", input=bad[1] if bad else None))


def element_kind():
    "elements are used with the declared element kind: pointer elements through ->, value elements through ."
    evals, bad = 0, None
    for backend, tab in tables().items():
        for spec in tab:
            if not is_seq(spec):
                continue
            q = "lambda e: e.%s('B').Select(lambda o: o.pt())" % spec.name
            try:
                info, files = RD.translate(RD._dataset().SelectMany(q).AsROOTTTree("f.root", "t", ["c"]), backend)
            except Exception as e:  # noqa
                bad = bad or ("%s: %s raised %r" % (backend, q, e), dict(backend=backend, query=q))
                continue
            evals += 1
            text = source(files)
            ptr = spec.container_type.element_type.p_depth > 0
            m = re.findall(r"(i_obj\d+)(->|\.)pt\(\)", text)
            if not m or any((op == "->") != ptr for _, op in m):
                bad = bad or ("%s: elements of %s (%s, pointer depth %d) are used as %r" % (backend, spec.name, spec.container_type.element_type, spec.container_type.element_type.p_depth, m), dict(backend=backend, query=q))
    results.append(dict(name="C06/bounded:element_kind", kind="bounded", status="violation" if bad else "ok", evaluations=evals, distinct=evals, exhaustive=False,
                        bound="every built-in sequence collection of the 3 backends, one method call on the element", detail=bad[0] if bad else "", input=bad[1] if bad else None))


def metadata_collections():
    evals, bad = 0, None
    decl = {
        "atlas": dict(metadata_type="add_atlas_event_collection_info", name="Jets", include_files=["my/JC.h"], container_type="my::JC", element_type="my::J", contains_collection=True, link_libraries=["myLib"]),
        "cms_aod": dict(metadata_type="add_cms_aod_event_collection_info", name="Muons", include_files=["my/MC.h"], container_type="my::MC", element_type="my::M", contains_collection=True, element_pointer=False),
        "cms_miniaod": dict(metadata_type="add_cms_miniaod_event_collection_info", name="Muons", include_files=["my/MC.h"], container_type="my::MC", element_type="my::M", contains_collection=True, element_pointer=True),
    }
    for backend, md in decl.items():
        # (1) replaces the built-in of the same name, (2) behaves like a built-in
        q = "lambda e: e.%s('bk').Select(lambda o: o.pt())" % md["name"]
        try:
            info, files = RD.translate(RD._dataset().MetaData(md).SelectMany(q).AsROOTTTree("f.root", "t", ["c"]), backend)
            evals += 1
            text = source(files)
            if md["container_type"] not in text or md["include_files"][0] not in text:
                bad = bad or ("%s: metadata-declared %s (container %s) did not replace the built-in: its container type / header is not in the generated source" % (backend, md["name"], md["container_type"]), dict(backend=backend, metadata=md))
            if backend == "atlas" and "myLib" not in text:
                bad = bad or ("atlas: link library of the metadata-declared collection is not requested", dict(backend=backend, metadata=md))
            want_ptr = backend == "atlas" or md.get("element_pointer", False)
            m = re.findall(r"(i_obj\d+)(->|\.)pt\(\)", text)
            if not m or any((op == "->") != want_ptr for _, op in m):
                bad = bad or ("%s: elements of the metadata-declared collection (element_pointer=%r) are used as %r" % (backend, md.get("element_pointer"), m), dict(backend=backend, metadata=md))
        except Exception as e:  # noqa
            bad = bad or ("%s: metadata-declared collection query raised %r" % (backend, e), dict(backend=backend, metadata=md))
        # (3) a declaration for another backend is refused
        for other, md2 in decl.items():
            if other == backend:
                continue
            try:
                RD.translate(RD._dataset().MetaData(md2).SelectMany("lambda e: e.%s('bk').Select(lambda o: o.pt())" % md2["name"]).AsROOTTTree("f.root", "t", ["c"]), backend)
                evals += 1
                bad = bad or ("%s executor accepted a collection declared for %s" % (backend, other), dict(backend=backend, metadata=md2))
            except ValueError:
                evals += 1
            except Exception as e:  # noqa
                evals += 1
                bad = bad or ("%s executor failed with %r (not a refusal) on a collection declared for %s" % (backend, e, other), dict(backend=backend, metadata=md2))
        # (4) malformed declarations
        for broken in (dict(md, bogus=1), {k: v for k, v in md.items() if k != "element_type"}):
            try:
                RD.translate(RD._dataset().MetaData(broken).SelectMany(q).AsROOTTTree("f.root", "t", ["c"]), backend)
                evals += 1
                bad = bad or ("%s: malformed collection declaration accepted: %r" % (backend, broken), dict(backend=backend, metadata=broken))
            except Exception:
                evals += 1
    # (5) malformed calls
    for backend, tab in tables().items():
        name = next(s.name for s in tab if is_seq(s))
        for call in ("e.%s()" % name, "e.%s(1)" % name, "e.%s('a', 'b')" % name):
            q = "lambda e: %s.Select(lambda o: o.pt())" % call
            try:
                RD.translate(RD._dataset().SelectMany(q).AsROOTTTree("f.root", "t", ["c"]), backend)
                evals += 1
                bad = bad or ("%s: malformed collection call `%s` accepted" % (backend, call), dict(backend=backend, query=q))
            except Exception:
                evals += 1
    results.append(dict(name="C06/bounded:metadata_collections_and_refusals", kind="bounded", status="violation" if bad else "ok", evaluations=evals, distinct=evals, exhaustive=False,
                        bound="1 declaration per backend x {own, 2 foreign backends, 2 malformed} + 3 malformed calls per backend", detail=bad[0] if bad else "", input=bad[1] if bad else None))


for fn in (builtin_collections, element_kind, metadata_collections):
    try:
        fn()
    except Exception as e:  # noqa
        import traceback
        results.append(dict(name="C06/bounded:" + fn.__name__, kind="bounded", status="undecided", detail="crashed: %r %s" % (e, traceback.format_exc()[-700:])))
print(json.dumps(dict(results=results)))
