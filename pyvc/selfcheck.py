"""setup-time self check: solvers present, a provable and an unprovable obligation behave as expected."""
import sys
import z3
from . import smt


def main():
    x = z3.Int("x")
    r1 = smt.solve(smt.to_smt2([], [x > 1], x > 0), 10)
    r2 = smt.solve(smt.to_smt2([], [x > 0], x > 1), 10)
    s = z3.String("s")
    r3 = smt.solve(smt.to_smt2([], [z3.Length(s) > 0], z3.Concat(s, z3.StringVal("a")) != z3.StringVal("a")), 10)
    ok = r1["verdict"] == "unsat" and r2["verdict"] == "sat" and r3["verdict"] == "unsat"
    for b in ("z3-new", "z3", "cvc5"):
        v, out, dt = smt.run_backend(b, smt.to_smt2([], [x > 1], x > 0), 10)
        print("backend %-7s %s" % (b, v))
        ok = ok and v == "unsat"
    print("selfcheck", "ok" if ok else "FAILED", r1["verdict"], r2["verdict"], r3["verdict"])
    return 0 if ok else 3


if __name__ == "__main__":
    sys.exit(main())
