"""Calls: builtins, inlining of real repo bodies, contract application, object construction."""
from __future__ import annotations
import ast
import z3
from .core import *
from .ops import *
from .sym import *
from .sym_expr import SymbolicComprehension, BUILTIN_NAMES

MUTATORS = {"append", "extend", "add", "update", "clear", "pop", "insert", "remove", "setdefault"}

# tagged union for python values of statically unknown type (ast.Constant.value, metadata dict values)
PYVAL = TRec("PyVal", [("kind", Int), ("s", Str), ("i", Int), ("b", Bool), ("f", TAbs("Float"))])
K_NONE, K_STR, K_INT, K_BOOL, K_FLOAT, K_OTHER = 0, 1, 2, 3, 4, 5
_REC_DEFINED = set()


def ops_CLOSURES():
    from . import ops
    return ops.CLOSURES

F_float_str = z3.Function("str_of_float", TAbs("Float").z3(), z3.StringSort())


class VStarList(Val):
    "*xs where xs is a symbolic list: only meaningful to callees that model it (itertools.chain)"

    def __init__(self, v):
        self.v = v


class CallMixin:
    # ------------------------------------------------------------ call expression
    def ev_Call(self, e, st, cx):
        # quantifier forms and special forms that need the AST of their argument
        if isinstance(e.func, ast.Name):
            n = e.func.id
            if n in ("all", "any") and len(e.args) == 1 and isinstance(e.args[0], (ast.GeneratorExp, ast.ListComp)) \
                    and n not in st.env:
                r = self.quantified(n, e.args[0], st, cx)
                if r is not None:
                    return r
            if cx.spec and n in ("forall", "exists"):
                return [(st, self.spec_quant(n, e, st, cx))]
            if cx.spec and n == "old":
                if cx.pre is None:
                    raise Unsupported("old() without a pre-state")
                p = cx.pre.copy()
                p.env = dict(st.env)
                return [(st, self.ev1(e.args[0], p, cx.child(pre=None)))]
            if n == "super" and not e.args:
                return [(st, VSuper(st.env.get("self", cx.self_val), cx.cls.qn))]
            if n == "cast" and len(e.args) == 2:
                outs = []
                for s2, v in self.ev(e.args[1], st, cx):
                    try:
                        tv = self.ev1(e.args[0], s2, cx.child(spec=True, acc=[]))
                    except Unsupported:
                        tv = None
                    if isinstance(v, VRef) and isinstance(tv, VType) and tv.qn is not None and not v.exact:
                        # typing.cast: the programmer's static type; used here only to select attribute sorts / dispatch
                        if v.cls is None or self.repo.is_subclass(tv.qn, v.cls):
                            v = VRef(v.t, tv.qn)
                    outs.append((s2, v))
                return outs
        # in-place mutation of a container held in an l-value
        if isinstance(e.func, ast.Attribute) and e.func.attr in MUTATORS:
            r = self.try_mutator(e, st, cx)
            if r is not None:
                return r
        outs = []
        for s, f in self.ev(e.func, st, cx):
            for s2, args in self.ev_list(e.args, s, cx):
                kws = [k for k in e.keywords]
                if any(k.arg is None for k in kws):
                    # **dict with concrete structure
                    work = [(s2, {})]
                    for k in kws:
                        nxt = []
                        for s3, kd in work:
                            for s4, v in self.ev(k.value, s3, cx):
                                if k.arg is None and isinstance(v, VRec) and isinstance(v.sort, TKDict):
                                    nxt.append((s4, {**kd, "**": v}))
                                    continue
                                if k.arg is None:
                                    if not isinstance(v, VConcDict):
                                        raise Unsupported("** of symbolic dict")
                                    d2 = dict(kd)
                                    for kk, vv in v.items:
                                        d2[kk.conc()] = vv
                                    nxt.append((s4, d2))
                                else:
                                    nxt.append((s4, {**kd, k.arg: v}))
                        work = nxt
                else:
                    work = [(s3, dict(zip([k.arg for k in kws], vs))) for s3, vs in self.ev_list([k.value for k in kws], s2, cx)]
                for s3, kwd in work:
                    outs.extend(self.call_function(f, args, kwd, s3, cx, node=e))
        return outs

    def try_mutator(self, e, st, cx):
        if getattr(cx, "module_level", False):
            pass
        outs = []
        res = self.ev(e.func.value, st, cx)
        handled = False
        for s, b in res:
            if isinstance(b, (VList, VTuple, VDict, VConcDict, VSet)):
                handled = True
                for s2, args in self.ev_list(e.args, s, cx):
                    nb, rv = self.mutate(b, e.func.attr, args, s2, cx)
                    for s3 in self.assign_target(e.func.value, nb, s2, cx, mutation=True):
                        # reference semantics for the one aliasing pattern that is modelled: a local bound directly to a
                        # container-valued attribute (x = obj.f; x.append(..)) also updates obj.f
                        if isinstance(e.func.value, ast.Name):
                            al = s3.env.get("__alias__" + e.func.value.id)
                            if al is not None:
                                s3 = s3.copy()
                                self.write_field(s3, al.what[0], al.what[1], nb)
                        outs.append((s3, rv))
            elif handled:
                raise Unsupported("mixed mutator receiver")
        return outs if handled else None

    def mutate(self, b, m, args, st, cx):
        if m == "append":
            if isinstance(b, VTuple):
                return VTuple(b.items + [args[0]], True), VNone()
            return list_append(b, self.narrow(st, args[0], b.sort.elem)), VNone()
        if m == "extend":
            return self.concat(b, args[0] if not isinstance(args[0], VIter) else VTuple(args[0].items), st), VNone()
        if m == "add" and isinstance(b, VSet):
            return set_add(b, args[0]), VNone()
        if m == "update" and isinstance(b, (VDict, VConcDict)):
            o = args[0]
            if isinstance(b, VConcDict) and isinstance(o, VConcDict):
                return self.concdict_update(b, o), VNone()
            if isinstance(b, VDict) and isinstance(o, VConcDict):
                d = b
                for k, v in o.items:
                    d = dict_set(d, k, v)
                return d, VNone()
        raise Unsupported("mutator %s on %r" % (m, b))

    def concdict_update(self, b, o):
        items = list(b.items)
        for k, v in o.items:
            kc = k.conc() if hasattr(k, "conc") else None
            for i, (k2, _) in enumerate(items):
                k2c = k2.conc() if hasattr(k2, "conc") else None
                if kc is not None and k2c is not None and kc == k2c:
                    items[i] = (k2, v)
                    break
                if kc is None or k2c is None:
                    raise Unsupported("update of dict with symbolic keys")
            else:
                items.append((k, v))
        return VConcDict(items)

    # ------------------------------------------------------------ dispatch
    def call_function(self, f, args, kw, st, cx, node=None):
        if isinstance(f, VType):
            return self.construct(f, args, kw, st, cx, node)
        if isinstance(f, VOpaque) and isinstance(f.what, TRec) and f.what.cls in self.reg.records:
            return self.construct_record(f.what.cls, args, kw, st, cx)
        if isinstance(f, VFuncRef):
            k = z3.simplify(f.t)
            if z3.is_int_value(k) and 1 <= k.as_long() <= len(ops_CLOSURES()):
                return self.call_function(ops_CLOSURES()[k.as_long() - 1], args, kw, st, cx, node)
            cc = self.reg.contracts.get("verif.closure." + str(getattr(f, "field", "?")))
            if cc is not None:
                return self.apply_contract(cc, args, kw, st, cx, node)
            raise Unsupported("call of a closure that is not known concretely (needs a client lemma or a verif.closure.<field> contract)")
        if not isinstance(f, VFunc):
            if isinstance(f, VRef):
                outs = []
                for s2, m in self.getattr_ref(f, "__call__", st, cx):
                    outs.extend(self.call_function(m, args, kw, s2, cx, node))
                return outs
            raise Unsupported("call of %r" % (f,))
        if f.self_val is not None and f.kind in ("repo", "contract", "external"):
            args = [f.self_val] + list(args)
        if f.kind == "builtin":
            return self.call_builtin(f, args, kw, st, cx, node)
        if f.kind == "lambda":
            return self.call_lambda(f, args, kw, st, cx)
        if f.kind == "closure":
            return self.call_closure(f, args, kw, st, cx)
        if f.kind == "spec":
            return self.call_spec(f, args, kw, st, cx)
        if f.kind == "unint":
            return [(st, self.call_unint(f.target, args, st))]
        qn = f.qn
        c = self.reg.contracts.get(qn)
        if c is not None and not c.inline and qn not in self.reg.inline_ok and qn not in self.force_inline:
            return self.apply_contract(c, args, kw, st, cx, node)
        if f.kind == "contract":
            raise Unsupported("no contract for %s" % qn)
        if f.kind == "external" and qn in ("copy.copy", "copy"):
            return self.copy_copy(args[0], st, cx)
        if f.kind == "external" and qn == "collections.defaultdict":
            self.warnings.append("collections.defaultdict modelled as an empty dict (default-on-read not modelled)")
            return [(st, VConcDict([]))]
        if f.kind == "external" and qn == "itertools.chain":
            from .sym_builtin import VChain
            if len(args) == 1 and isinstance(args[0], VStarList):
                return [(st, VChain(args[0].v))]
            raise Unsupported("itertools.chain of explicit iterables")
        if f.kind == "external" and qn.startswith("logging."):
            self.warnings.append("logging calls are not modelled (no effect on the translator's state or output)")
            return [(st, VOpaque("logging"))]
        if f.kind == "external":
            raise Unsupported("call of external %s without an assumed contract" % qn)
        if f.kind == "repo":
            if qn in self.reg.no_inline:
                raise Unsupported("call of %s: not inlinable and no contract" % qn)
            mod = f.env
            ci = None
            parts = qn.split(".")
            cq = ".".join(parts[:-1])
            if cq in self.repo.classes():
                ci = self.repo.classes()[cq]
            return self.call_repo(f.target, mod, ci, args, kw, st, cx, qn=qn)
        raise Unsupported("call kind %s" % f.kind)

    def bind_params(self, fn, args, kw, st, cx, mod, qn):
        a = fn.args
        names = [x.arg for x in a.posonlyargs + a.args]
        env = {}
        args = list(args)
        if len(args) > len(names) and a.vararg is None:
            raise Unsupported("too many arguments calling %s" % qn)
        for n, v in zip(names, args):
            env[n] = v
        if a.vararg is not None:
            env[a.vararg.arg] = VTuple(args[len(names):])
        kw = dict(kw)
        for n in names[len(args):]:
            if n in kw:
                env[n] = kw.pop(n)
        for ka in a.kwonlyargs:
            if ka.arg in kw:
                env[ka.arg] = kw.pop(ka.arg)
        if kw:
            if a.kwarg is not None:
                env[a.kwarg.arg] = VConcDict([(VStr(k), v) for k, v in kw.items()])
            else:
                return None, ("builtins.TypeError", "unexpected keyword %s" % list(kw))
        # defaults
        nd = len(a.defaults)
        for i, n in enumerate(names):
            if n not in env:
                di = i - (len(names) - nd)
                if di < 0:
                    return None, ("builtins.TypeError", "missing argument %s" % n)
                env[n] = self.default_value(a.defaults[di], mod, qn, n, st, cx)
        for ka, d in zip(a.kwonlyargs, a.kw_defaults):
            if ka.arg not in env:
                if d is None:
                    return None, ("builtins.TypeError", "missing kw argument")
                env[ka.arg] = self.default_value(d, mod, qn, ka.arg, st, cx)
        return env, None

    def default_value(self, d, mod, qn, pname, st, cx):
        gq = "default:%s:%s" % (qn, pname)
        if gq in self.reg.globals:
            return self.glob_get(st, gq)
        if isinstance(d, (ast.Dict, ast.List, ast.Set)) or isinstance(d, ast.Call):
            if isinstance(d, (ast.Dict, ast.List)) and not (d.keys if isinstance(d, ast.Dict) else d.elts):
                # mutable default evaluated once at definition time: shared object.  Only sound to treat as a
                # fresh empty value when the callee never mutates it; flagged for C07.
                self.warnings.append("mutable default argument %s of %s treated as definition-time object" % (pname, qn))
        r = self.ev(d, State_with_top(self.top0), Cx(mod, acc=[], depth=cx.depth + 1))
        if len(r) != 1:
            raise Unsupported("default value forks")
        return r[0][1]

    def call_repo(self, fn, mod, ci, args, kw, st, cx, qn):
        if cx.depth > MAX_INLINE_DEPTH:
            raise Unsupported("inline depth exceeded at %s" % qn)
        if any(isinstance(n, (ast.Yield, ast.YieldFrom, ast.Await)) for n in ast.walk(fn)):
            raise Unsupported("generator/await in %s" % qn)
        # a decorator replaces the function by something else (a cache, a wrapper ...): only the ones with a modelled meaning are accepted
        for d in getattr(fn, "decorator_list", []) or []:
            dn = d.id if isinstance(d, ast.Name) else d.attr if isinstance(d, ast.Attribute) else (d.func.id if isinstance(d, ast.Call) and isinstance(d.func, ast.Name) else
                                                                                             d.func.attr if isinstance(d, ast.Call) and isinstance(d.func, ast.Attribute) else "?")
            if dn not in ("property", "staticmethod", "classmethod", "abstractmethod", "dataclass", "setter", "overload", "wraps"):
                raise Unsupported("%s is decorated with @%s, whose effect on the function is not modelled" % (qn, dn))
        env, err = self.bind_params(fn, args, kw, st, cx, mod, qn)
        if err is not None:
            if not cx.spec:
                self.raise_(cx, st, err[0])
            return []
        self.inlined.add(qn)
        caller_env = st.env
        st = st.copy()
        st.env = env
        sub = Cx(mod, cls=ci, fn=qn, spec=cx.spec, pre=cx.pre, contract=self.reg.contracts.get(qn), closure=[],
                 depth=cx.depth + 1, acc=[], self_val=env.get("self"), fn_node=fn)
        if isinstance(fn, ast.Lambda):
            res = [(s, ("return", v)) for s, v in self.ev(fn.body, st, sub)]
        else:
            res = self.exec_block(fn.body, st, sub)
        outs = []
        for s, oc in res:
            s.env = dict(caller_env)
            if oc[0] == "return":
                outs.append((s, oc[1]))
            elif oc[0] == "normal":
                outs.append((s, VNone()))
            else:
                raise Unsupported("break/continue escaped function %s" % qn)
        for r in sub.acc:
            r.st.env = dict(caller_env)
            cx.acc.append(r)
        return outs

    def call_lambda(self, f, args, kw, st, cx):
        lam = f.target
        defcx = f.self_val  # Cx at definition
        env, err = self.bind_params(lam, args, kw, st, cx, defcx.mod, "<lambda>")
        if err is not None:
            if not cx.spec:
                self.raise_(cx, st, err[0])
            return []
        caller_env = st.env
        st = st.copy()
        st.env = env
        sub = Cx(defcx.mod, cls=defcx.cls, fn=defcx.fn, spec=cx.spec, pre=cx.pre, closure=f.env, depth=cx.depth + 1, acc=[],
                 self_val=defcx.self_val)
        outs = []
        for s, v in self.ev(lam.body, st, sub):
            s.env = dict(caller_env)
            outs.append((s, v))
        for r in sub.acc:
            r.st.env = dict(caller_env)
            cx.acc.append(r)
        return outs

    def call_closure(self, f, args, kw, st, cx):
        "nested def: body executed with the defining frame as closure"
        fn = f.target
        defcx = f.self_val
        qn = f.qn
        c = self.reg.contracts.get(qn)
        if c is not None and not c.inline:
            return self.apply_contract(c, args, kw, st, cx)
        if cx.depth > MAX_INLINE_DEPTH:
            raise Unsupported("inline depth exceeded at %s" % qn)
        env, err = self.bind_params(fn, args, kw, st, cx, defcx.mod, qn)
        if err is not None:
            self.raise_(cx, st, err[0])
            return []
        caller_env = st.env
        st = st.copy()
        st.env = env
        sub = Cx(defcx.mod, cls=defcx.cls, fn=qn, spec=cx.spec, pre=cx.pre, contract=self.reg.contracts.get(qn), closure=f.env,
                 depth=cx.depth + 1, acc=[], self_val=defcx.self_val, fn_node=fn)
        # a local closure of a function under contract runs under that contract's ghost anchors; ghost variables live in the caller's frame
        sub.ghost_contract = cx.contract or cx.ghost_contract
        gnames = set()
        if sub.ghost_contract is not None:
            for gl in list(sub.ghost_contract.ghost_init or []) + [x for v in (sub.ghost_contract.ghost or {}).values() for x in v]:
                gnames.add(gl.split("=", 1)[0].strip())
            for g in gnames:
                if g in caller_env and g not in st.env:
                    st.env[g] = caller_env[g]
        outs = []
        for s, oc in self.exec_block(fn.body, st, sub):
            back = dict(caller_env)
            for g in gnames:
                if g in s.env:
                    back[g] = s.env[g]
            s.env = back
            outs.append((s, oc[1] if oc[0] == "return" else VNone()))
        for r in sub.acc:
            r.st.env = dict(caller_env)
            cx.acc.append(r)
        return outs

    def call_spec(self, f, args, kw, st, cx):
        fn = f.target
        env, err = self.bind_params(fn, args, kw, st, cx, f.env, f.qn)
        if err is not None:
            raise Unsupported("bad call of spec function %s: %s" % (f.qn, err[1]))
        caller_env = st.env
        s2 = st.copy()
        s2.env = env
        sub = Cx(f.env, spec=True, pre=cx.pre, depth=cx.depth + 1, acc=[])
        body = [b for b in fn.body if not (isinstance(b, ast.Expr) and isinstance(b.value, ast.Constant))]
        if len(body) == 1 and isinstance(body[0], ast.Return):
            v = self.ev1(body[0].value, s2, sub)
            st.pc.extend(s2.pc[len(st.pc):])
            return [(st, v)]
        res = self.exec_block(body, s2, sub)
        # merge the returned values of all paths with ite on their path conditions
        base = len(st.pc)
        val = None
        for s, oc in reversed(res):
            if oc[0] != "return":
                raise Unsupported("spec function %s path without return" % f.qn)
            cond = z3.And(*s.pc[base:]) if len(s.pc) > base else z3.BoolVal(True)
            val = oc[1] if val is None else self.ite(cond, oc[1], val)
        if val is None:
            raise Unsupported("spec function %s has no feasible path" % f.qn)
        return [(st, val)]

    def call_unint(self, name, args, st):
        f, asorts, rsort, axioms, impl, sm = self.reg.unint[name]
        if name not in self.unint_used:
            self.unint_used.add(name)
            if name in self.reg.recdefs and name not in _REC_DEFINED:
                _REC_DEFINED.add(name)
                rf, params, rres, body, rsm = self.reg.recdefs[name]
                s0 = State_with_top(self.top0)
                vs = []
                for pn, pso in params:
                    pv = mk_val(z3.Const("rp_" + name + "_" + pn, pso.z3()), pso)
                    s0.env[pn] = pv
                    vs.append(pv.t)
                bv = self.ev1(ast.parse(body, mode="eval").body, s0, Cx(rsm, spec=True, acc=[]))
                z3.RecAddDefinition(rf, vs, term_of(bv, rres))
            for ax in axioms:
                s0 = State_with_top(self.top0)
                v = self.ev1(ast.parse(ax, mode="eval").body, s0, Cx(sm, spec=True, acc=[]))
                self.axioms.append(truth(v))
                self.axioms.extend(s0.pc)
        ts = [term_of(a, s) for a, s in zip(args, asorts)]
        return mk_val(f(*ts), rsort)

    def copy_copy(self, v, st, cx):
        "copy.copy: values are immutable in the model; an object gets a fresh shallow copy (same class, same fields)"
        if not isinstance(v, VRef):
            return [(st, v)]
        st = st.copy()
        new = VRef(st.top, v.cls, exact=v.exact)
        st.pc.append(z3.Select(self.H_cls, st.top) == self.cls_of(v))
        st.top = st.top + 1
        keys = {}
        for name, so in self.reg.fields.items():
            keys[name] = so
        for (c, name), so in self.reg.class_fields.items():
            keys["%s@%s" % (name, c.split(".")[-1])] = so
        for k, so in keys.items():
            a = self.heap_arr(st, k, so)
            st.heap[k] = z3.Store(a, new.t, z3.Select(a, v.t))
        return [(st, new)]

    # ------------------------------------------------------------ construction
    def construct(self, t: VType, args, kw, st, cx, node=None):
        qn = t.qn
        if qn is None:
            raise Unsupported("construction from a symbolic class")
        if qn in self.reg.records:
            return self.construct_record(qn, args, kw, st, cx)
        from .front import EXTERNAL_BASES
        if qn.startswith("builtins.") and qn in EXTERNAL_BASES and self.repo.is_subclass(qn, "builtins.BaseException"):
            return [(st, VExc(qn, args))]
        if qn == "python_on_whales.exceptions.DockerException":
            return [(st, VExc(qn, args))]
        c = self.reg.contracts.get(qn + ".__init__") or self.reg.contracts.get(qn)
        if c is not None and not c.inline:
            return self.apply_contract(c, args, kw, st, cx, node)
        ci = self.repo.classes().get(qn)
        if ci is None:
            if qn.startswith("ast."):
                return self.construct_ast(qn, args, kw, st, cx)
            if qn.startswith("builtins."):
                return self.call_builtin(VFunc("builtin", qn.split(".")[1]), args, kw, st, cx, node)
            raise Unsupported("construction of external class %s" % qn)
        if self.repo.is_subclass(qn, "builtins.BaseException"):
            return [(st, VExc(qn, args))]
        st = st.copy()
        obj = self.alloc(st, qn)
        found = self.repo.find_method(qn, "__init__")
        if found is None:
            # maybe an external base with assumed __init__ (ast.AST): no fields
            return [(st, obj)]
        ci2, fn = found
        outs = []
        for s, _ in self.call_function(VFunc("repo", fn, self_val=obj, env=ci2.mod, qn=ci2.qn + ".__init__"), args, kw, st, cx):
            outs.append((s, obj))
        return outs

    def construct_record_from_kdict(self, qn, kd, st, cx):
        "C(**d) with d a keyed dict: a key that is not a field (or a missing field without default) is a TypeError"
        rec = self.reg.records[qn]
        ci = self.repo.classes().get(qn)
        names = [f for f, _ in rec.fields]
        bad = [kd.sort.get(kd.t, "other")]
        for k in kd.sort.keys:
            if k not in names:
                bad.append(kd.sort.get(kd.t, "p_" + k))
        ts = []
        for n, so in rec.fields:
            d = None
            for fname, ann, dv in (ci.fields if ci else []):
                if fname == n:
                    d = dv
            if n in kd.sort.keys:
                present = kd.sort.get(kd.t, "p_" + n)
                val = coerce(mk_val(kd.sort.get(kd.t, "v_" + n), kd.sort.keys[n]), so)
            else:
                present = z3.BoolVal(False)
                val = None
            if d is None:
                bad.append(z3.Not(present))
                ts.append(val.t if val is not None else default_term(so))
            else:
                if isinstance(d, ast.Call) and isinstance(d.func, ast.Name) and d.func.id == "field":
                    dflt = coerce(VTuple([], True), so)
                else:
                    dflt = coerce(self.ev1(d, State_with_top(self.top0), Cx(ci.mod, spec=True, acc=[])), so)
                ts.append(z3.If(present, val.t, dflt.t) if val is not None else dflt.t)
        ok, err = self.fork(st, z3.Not(z3.Or(*bad)))
        if err is not None and not cx.spec:
            self.raise_(cx, err, "builtins.TypeError")
        return [(ok, VRec(rec.mk(*ts), rec))] if ok is not None else []

    def construct_record(self, qn, args, kw, st, cx):
        if "**" in kw:
            if args or len(kw) > 1:
                raise Unsupported("record construction mixing ** with other arguments")
            return self.construct_record_from_kdict(qn, kw["**"], st, cx)
        rec = self.reg.records[qn]
        ci = self.repo.classes().get(qn)
        names = [f for f, _ in rec.fields]
        vals = {}
        if len(args) > len(names):
            if not cx.spec:
                self.raise_(cx, st, "builtins.TypeError")
            return []
        for n, v in zip(names, args):
            vals[n] = v
        for k, v in kw.items():
            if k not in names or k in vals:
                if not cx.spec:
                    self.raise_(cx, st, "builtins.TypeError")
                return []
            vals[k] = v
        for n in names:
            if n not in vals:
                d = None
                if ci is not None:
                    for fname, ann, dv in ci.fields:
                        if fname == n:
                            d = dv
                if d is None:
                    if not cx.spec:
                        self.raise_(cx, st, "builtins.TypeError")
                    return []
                if isinstance(d, ast.Call) and isinstance(d.func, ast.Name) and d.func.id == "field":
                    fac = [k.value for k in d.keywords if k.arg == "default_factory"]
                    if fac and isinstance(fac[0], ast.Name) and fac[0].id == "list":
                        vals[n] = VTuple([], True)
                    else:
                        raise Unsupported("dataclass field() default")
                else:
                    vals[n] = self.ev1(d, State_with_top(self.top0), Cx(ci.mod, spec=True, acc=[]))
        try:
            t = rec.mk(*[term_of(vals[n], s) for n, s in rec.fields])
        except Unsupported:
            if cx.spec:
                raise
            raise
        return [(st, VRec(t, rec))]

    AST_FIELDS = {"ast.Call": ["func", "args", "keywords"], "ast.Name": ["id", "ctx"], "ast.List": ["elts", "ctx"],
                  "ast.Constant": ["value"], "ast.Attribute": ["value", "attr", "ctx"], "ast.Tuple": ["elts", "ctx"]}

    def construct_ast(self, qn, args, kw, st, cx):
        st = st.copy()
        obj = self.alloc(st, qn)
        fields = self.AST_FIELDS.get(qn)
        if fields is None:
            raise Unsupported("construction of %s" % qn)
        vals = dict(zip(fields, args))
        vals.update(kw)
        for k, v in vals.items():
            if k == "ctx":
                continue
            self.write_field(st, obj, k, v)
        return [(st, obj)]

    # ------------------------------------------------------------ contracts
    def spec_env_state(self, st, env):
        s = st.copy()
        s.env = dict(env)
        return s

    def eval_spec(self, expr, st, env, pre, mod, extra_pc_into=None):
        "evaluate a contract expression string to a z3 Bool; facts generated during evaluation are added to st.pc"
        tree = expr if isinstance(expr, ast.AST) else ast.parse(expr.strip(), mode="eval").body
        s = st.copy()
        s.env = dict(env)
        n0 = len(s.pc)
        v = self.ev1(tree, s, Cx(mod, spec=True, pre=pre, acc=[]))
        new = s.pc[n0:]
        (st.pc if extra_pc_into is None else extra_pc_into).extend(new)
        return v

    def apply_contract(self, c: Contract, args, kw, st, cx, node=None):
        if c.assumed:
            self.assumed_contracts.add(c.qn)
        names = list(c.params.keys())
        env = {}
        args = list(args)
        if len(args) > len(names):
            raise Unsupported("too many args for contract %s" % c.qn)
        for n, v in zip(names, args):
            env[n] = v
        for k, v in kw.items():
            if k not in names:
                raise Unsupported("contract %s has no parameter %s" % (c.qn, k))
            env[k] = v
        for n in names:
            if n not in env:
                if n in c.defaults:
                    env[n] = self.ev1(ast.parse(c.defaults[n], mode="eval").body, State_with_top(self.top0),
                                      Cx(c.module, spec=True, acc=[]))
                else:
                    raise Unsupported("missing argument %s for contract %s" % (n, c.qn))
        for n in names:
            srt = c.params[n]
            if srt is not None:
                env[n] = coerce(self.narrow_deep(st, env[n], srt), srt)
        st = st.copy()
        caller_env = st.env
        # preconditions are proof obligations of the caller
        for lab, ex in c.requires:
            g = self.eval_spec(ex, st, env, None, c.module)
            if cx.spec:
                continue
            self.oblige(st, truth(g), "call-pre", "%s.%s@%s" % (c.qn.split(".")[-1], lab, getattr(node, "lineno", "?")), node)
        pre = st.copy()
        outs = []
        wit = {}
        for k_, so_ in (c.local_sorts or {}).items():  # callee-internal finals: existentially quantified witnesses
            w = fresh(so_, "wit_" + k_)
            wit["final_" + k_] = w
        env = dict(env)
        env.update(wit)
        # exceptional exits
        normal = st
        for exc, cond in c.raises.items():
            if normal is None:
                break
            g = truth(self.eval_spec(cond, normal, env, None, c.module))
            t, f = self.fork(normal, g)
            if t is not None and not cx.spec:
                self.havoc(t, c, cx)
                for lab, ex in c.ensures_raise.get(exc, []) + c.ensures_raise.get("*", []):
                    t.pc.append(truth(self.eval_spec(ex, t, env, pre, c.module)))
                self.raise_(cx, t, self.exc_qn(exc))
            normal = f
        if normal is None:
            return []
        for exc in c.may_raise:
            if cx.spec:
                break
            b = z3.FreshConst(z3.BoolSort(), "mayraise")
            t = normal.copy()
            t.pc.append(b)
            self.havoc(t, c, cx)
            for lab, ex in c.ensures_raise.get(exc, []) + c.ensures_raise.get("*", []):
                t.pc.append(truth(self.eval_spec(ex, t, env, pre, c.module)))
            self.raise_(cx, t, self.exc_qn(exc))
            normal.pc.append(z3.Not(b))
        st = normal
        self.havoc(st, c, cx)
        res = VNone()
        if c.result is not None and c.pure_fn:
            res = self.call_unint(c.pure_fn, [env[n] for n in names], st)
            self.assume_wf(st, res, nullable=True)
        elif c.result is not None:
            if c.fresh_result:
                res = self.alloc(st, c.result.cls)
                res = VRef(res.t, c.result.cls)
            else:
                res = fresh(c.result, "res_" + c.qn.split(".")[-1])
                self.assume_wf(st, res, nullable=True)
        env2 = dict(env)
        env2["result"] = res
        for k_, w in wit.items():
            self.assume_wf(st, w, nullable=True)
        for lab, ex in c.ensures:
            st.pc.append(truth(self.eval_spec(ex, st, env2, pre, c.module)))
            if self.paranoid and not self.feasible(st):
                raise Unsupported("assuming ensures '%s' of %s makes the path infeasible (contradictory contract?)" % (lab, c.qn))
        st.env = caller_env
        return [(st, res)]

    def exc_qn(self, name):
        if "." in name:
            return name
        m = {"xAODTranslationError": "func_adl_xAOD.common.ast_to_cpp_translator.xAODTranslationError",
             "BlockException": "func_adl_xAOD.common.statement.BlockException",
             "DockerException": "python_on_whales.exceptions.DockerException"}
        return m.get(name, "builtins." + name)

    def havoc(self, st, c: Contract, cx):
        allocs = any(not (m.startswith("global:") or m.startswith("ghost:")) for m in c.modifies)
        if allocs:
            nt = z3.FreshConst(z3.IntSort(), "top")
            st.pc.append(nt >= st.top)
            st.top = nt
        for m in c.modifies:
            if m.startswith("global:"):
                qn = m[7:]
                s = self.reg.globals[qn]
                v = fresh(s, "g")
                self.assume_wf(st, v)
                st.glob[qn] = v
            elif m.startswith("ghost:"):
                n = m[6:]
                v = fresh(self.reg.ghosts[n], "gh")
                self.assume_wf(st, v)
                st.ghost[n] = v
        for m in c.modifies:
            if m.startswith("global:") or m.startswith("ghost:") or m == "alloc":
                continue
            cls = None
            name = m
            if "@" in m:
                name, cls = m.split("@")
            s = self.field_sort(name, cls)
            if s is None:
                raise Unsupported("modifies of undeclared field %s" % m)
            k = self.heap_key(name, cls)
            a = z3.FreshConst(z3.ArraySort(z3.IntSort(), s.z3()), "H_" + k)
            self.arr_bound[a.get_id()] = st.top
            st.heap[k] = a


def State_with_top(top):
    s = State()
    s.top = top
    return s
