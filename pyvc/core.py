"""Sorts and symbolic values for pyvc.

Sort descriptors (Python side) map to z3 sorts.  Values wrap z3 terms (or keep a
concrete Python structure when the structure is known).
"""
from __future__ import annotations
import z3

# ---------------------------------------------------------------- sorts


class Sort:
    _z3 = None

    def z3(self):
        raise NotImplementedError

    def __repr__(self):
        return self.name()

    def name(self):
        return type(self).__name__

    def __eq__(self, o):
        return isinstance(o, Sort) and self.name() == o.name()

    def __hash__(self):
        return hash(self.name())


class TIntS(Sort):
    def z3(self):
        return z3.IntSort()

    def name(self):
        return "Int"


class TBoolS(Sort):
    def z3(self):
        return z3.BoolSort()

    def name(self):
        return "Bool"


class TStrS(Sort):
    def z3(self):
        return z3.StringSort()

    def name(self):
        return "Str"


class TRefS(Sort):
    """Object with identity.  `cls` is the static upper bound (qualified class name) or None."""

    def __init__(self, cls=None):
        self.cls = cls

    def z3(self):
        return z3.IntSort()

    def name(self):
        return "Ref"


class TFuncS(Sort):
    "a closure stored in a heap field: index into the executor's closure table (0 = none)"

    def z3(self):
        return z3.IntSort()

    def name(self):
        return "Func"


class TTypeS(Sort):
    "a class object (class id)"

    def z3(self):
        return z3.IntSort()

    def name(self):
        return "Type"


_abs_cache = {}


class TAbs(Sort):
    "uninterpreted sort: values only compared by equality"

    def __init__(self, nm):
        self.nm = nm

    def z3(self):
        if self.nm not in _abs_cache:
            _abs_cache[self.nm] = z3.DeclareSort(self.nm)
        return _abs_cache[self.nm]

    def name(self):
        return "Abs_" + self.nm


_dt_cache = {}


def _acc(dt, ci, ai, t):
    "accessor application, reduced when t is syntactically the constructor"
    try:
        if z3.is_app(t) and t.decl().eq(dt.constructor(ci)):
            return t.arg(ai)
    except Exception:
        pass
    return dt.accessor(ci, ai)(t)


def _dt(name, ctor, fields):
    if name not in _dt_cache:
        d = z3.Datatype(name)
        d.declare(ctor, *fields)
        _dt_cache[name] = d.create()
    return _dt_cache[name]


class TList(Sort):
    def __init__(self, elem: Sort):
        self.elem = elem

    def name(self):
        return "L_" + self.elem.name()

    def z3(self):
        return _dt(self.name(), "mkL_" + self.elem.name(),
                   [("len_" + self.name(), z3.IntSort()),
                    ("arr_" + self.name(), z3.ArraySort(z3.IntSort(), self.elem.z3()))])

    def mk(self, ln, arr):
        return self.z3().constructor(0)(ln, arr)

    def len(self, t):
        return _acc(self.z3(), 0, 0, t)

    def arr(self, t):
        return _acc(self.z3(), 0, 1, t)


class TOpt(Sort):
    def __init__(self, inner: Sort):
        self.inner = inner

    def name(self):
        return "O_" + self.inner.name()

    def z3(self):
        nm = self.name()
        if nm not in _dt_cache:
            d = z3.Datatype(nm)
            d.declare("none_" + nm)
            d.declare("some_" + nm, ("the_" + nm, self.inner.z3()))
            _dt_cache[nm] = d.create()
        return _dt_cache[nm]

    def none(self):
        return self.z3().constructor(0)()

    def some(self, t):
        return self.z3().constructor(1)(t)

    def is_none(self, t):
        return self.z3().recognizer(0)(t)

    def the(self, t):
        return self.z3().accessor(1, 0)(t)


class TRec(Sort):
    "value record (dataclass)"

    def __init__(self, nm, fields, cls=None):
        self.nm = nm
        self.fields = list(fields)  # [(name, Sort)]
        self.cls = cls  # qualified python class

    def name(self):
        return "R_" + self.nm

    def z3(self):
        return _dt(self.name(), "mkR_" + self.nm, [("f_%s_%s" % (self.nm, f), s.z3()) for f, s in self.fields])

    def mk(self, *ts):
        return self.z3().constructor(0)(*ts)

    def fidx(self, f):
        for i, (n, _) in enumerate(self.fields):
            if n == f:
                return i
        return None

    def get(self, t, f):
        return _acc(self.z3(), 0, self.fidx(f), t)

    def fsort(self, f):
        return self.fields[self.fidx(f)][1]


class TUnionRec(TRec):
    "tagged union of value records (a python variable that holds an instance of one of several dataclasses)"

    def __init__(self, nm, members):
        self.members = dict(members)  # class qn -> TRec
        fields = [("tag", Int)] + [("m_" + qn.split(".")[-1], r) for qn, r in members.items()]
        TRec.__init__(self, "U_" + nm, fields)

    def member_field(self, qn):
        return "m_" + qn.split(".")[-1]


class TKDict(TRec):
    """a python dict with string keys drawn from a known finite universe (plus at most 'some other key'):
    fields p_<k>: Bool (present), v_<k>: value; other: Bool; other_key: Str"""

    def __init__(self, nm, keys):
        self.keys = dict(keys)  # key -> value Sort
        fields = []
        for k, so in keys.items():
            fields.append(("p_" + k, Bool))
            fields.append(("v_" + k, so))
        fields += [("other", Bool), ("other_key", Str)]
        TRec.__init__(self, "KD_" + nm, fields)


class TDict(Sort):
    """dict as (n, keys: Int->K, idx: K->Int, val: K->V).
    dom(k) <=> 0 <= idx[k] < n and keys[idx[k]] == k ;  WF: forall i in [0,n): idx[keys[i]] == i."""

    def __init__(self, k: Sort, v: Sort):
        self.k = k
        self.v = v

    def name(self):
        return "D_%s_%s" % (self.k.name(), self.v.name())

    def z3(self):
        n = self.name()
        return _dt(n, "mk" + n, [("n_" + n, z3.IntSort()),
                                 ("keys_" + n, z3.ArraySort(z3.IntSort(), self.k.z3())),
                                 ("idx_" + n, z3.ArraySort(self.k.z3(), z3.IntSort())),
                                 ("val_" + n, z3.ArraySort(self.k.z3(), self.v.z3()))])

    def mk(self, n, keys, idx, val):
        return self.z3().constructor(0)(n, keys, idx, val)

    def n(self, t):
        return _acc(self.z3(), 0, 0, t)

    def keys(self, t):
        return _acc(self.z3(), 0, 1, t)

    def idx(self, t):
        return _acc(self.z3(), 0, 2, t)

    def val(self, t):
        return _acc(self.z3(), 0, 3, t)

    def dom(self, t, k):
        i = z3.Select(self.idx(t), k)
        return z3.And(i >= 0, i < self.n(t), z3.Select(self.keys(t), i) == k)

    def wf(self, t):
        i = z3.FreshConst(z3.IntSort(), "wfi")
        return z3.And(self.n(t) >= 0,
                      z3.ForAll([i], z3.Implies(z3.And(i >= 0, i < self.n(t)),
                                                z3.Select(self.idx(t), z3.Select(self.keys(t), i)) == i)))


class TSet(Sort):
    "set as (mem: K->Bool, card: Int); card is linked to mem only through lemmas"

    def __init__(self, k: Sort):
        self.k = k

    def name(self):
        return "S_" + self.k.name()

    def z3(self):
        n = self.name()
        return _dt(n, "mk" + n, [("mem_" + n, z3.ArraySort(self.k.z3(), z3.BoolSort())), ("card_" + n, z3.IntSort())])

    def mk(self, mem, card):
        return self.z3().constructor(0)(mem, card)

    def mem(self, t):
        return _acc(self.z3(), 0, 0, t)

    def card(self, t):
        return _acc(self.z3(), 0, 1, t)


class TMap(Sort):
    "total map (ghost / spec only): z3 array"

    def __init__(self, k: Sort, v: Sort):
        self.k = k
        self.v = v

    def name(self):
        return "M_%s_%s" % (self.k.name(), self.v.name())

    def z3(self):
        return z3.ArraySort(self.k.z3(), self.v.z3())


class TUnionS(Sort):
    "a python value of one of: None(0) str(1) int(2) bool(3) object reference(4) list of str(5)"

    def name(self):
        return "PyU"

    def z3(self):
        return _dt("PyU", "mkPyU", [("u_tag", z3.IntSort()), ("u_s", z3.StringSort()), ("u_i", z3.IntSort()), ("u_b", z3.BoolSort()),
                                    ("u_r", z3.IntSort()), ("u_l", TList(Str).z3())])

    def mk(self, tag, s=None, i=None, b=None, r=None, l=None):
        ls = TList(Str)
        return self.z3().constructor(0)(z3.IntVal(tag), s if s is not None else z3.StringVal(""), i if i is not None else z3.IntVal(0),
                                        b if b is not None else z3.BoolVal(False), r if r is not None else z3.IntVal(0),
                                        l if l is not None else ls.mk(z3.IntVal(0), z3.K(z3.IntSort(), z3.StringVal(""))))

    def l(self, t):
        return _acc(self.z3(), 0, 5, t)

    def tag(self, t):
        return _acc(self.z3(), 0, 0, t)

    def s(self, t):
        return _acc(self.z3(), 0, 1, t)

    def i(self, t):
        return _acc(self.z3(), 0, 2, t)

    def b(self, t):
        return _acc(self.z3(), 0, 3, t)

    def r(self, t):
        return _acc(self.z3(), 0, 4, t)


class TTup(Sort):
    "fixed-arity tuple of sorts; only used as Python-side structure (VTuple)"

    def __init__(self, items):
        self.items = list(items)

    def name(self):
        return "T_" + "_".join(s.name() for s in self.items)

    def z3(self):
        return _dt(self.name(), "mk" + self.name(), [("t%d_%s" % (i, self.name()), s.z3()) for i, s in enumerate(self.items)])


Int = TIntS()
Bool = TBoolS()
Str = TStrS()
Ref = TRefS()
Type = TTypeS()
Func = TFuncS()
PyU = TUnionS()


def RefOf(cls):
    return TRefS(cls)


# ---------------------------------------------------------------- values


class Val:
    sort: Sort = None


class VInt(Val):
    sort = Int

    def __init__(self, t):
        self.t = z3.IntVal(t) if isinstance(t, int) and not isinstance(t, bool) else t

    def conc(self):
        s = z3.simplify(self.t)
        return s.as_long() if z3.is_int_value(s) else None

    def __repr__(self):
        return "VInt(%s)" % self.t


class VBool(Val):
    sort = Bool

    def __init__(self, t):
        self.t = z3.BoolVal(t) if isinstance(t, bool) else t

    def conc(self):
        s = z3.simplify(self.t)
        if z3.is_true(s):
            return True
        if z3.is_false(s):
            return False
        return None

    def __repr__(self):
        return "VBool(%s)" % self.t


class VStr(Val):
    sort = Str

    def __init__(self, t):
        self.t = z3.StringVal(t) if isinstance(t, str) else t

    def conc(self):
        s = z3.simplify(self.t)
        return s.as_string() if z3.is_string_value(s) else None

    def __repr__(self):
        return "VStr(%s)" % self.t


class VNone(Val):
    def __repr__(self):
        return "VNone"


class VRef(Val):
    "object reference; cls = static class bound (qualified name) or None; exact=True when class is exactly cls"

    def __init__(self, t, cls=None, exact=False):
        self.t = z3.IntVal(t) if isinstance(t, int) else t
        self.cls = cls
        self.exact = exact
        self.sort = TRefS(cls)

    def __repr__(self):
        return "VRef(%s:%s)" % (self.t, self.cls)


class VType(Val):
    "a class object.  qn = qualified name when concrete"
    sort = Type

    def __init__(self, t, qn=None):
        self.t = t
        self.qn = qn

    def __repr__(self):
        return "VType(%s)" % (self.qn or self.t)


class VAbs(Val):
    def __init__(self, t, sort):
        self.t = t
        self.sort = sort


class VTuple(Val):
    "tuple/list with concrete structure"

    def __init__(self, items, is_list=False):
        self.items = list(items)
        self.is_list = is_list

    @property
    def sort(self):
        return TTup([i.sort for i in self.items])

    def __repr__(self):
        return "VTuple(%r)" % (self.items,)


class VList(Val):
    "symbolic list (len, arr)"

    def __init__(self, t, sort: TList):
        self.t = t
        self.sort = sort

    def __repr__(self):
        return "VList(%s)" % self.sort


class VRec(Val):
    def __init__(self, t, sort: TRec):
        self.t = t
        self.sort = sort

    def __repr__(self):
        return "VRec(%s)" % self.sort


class VOpt(Val):
    def __init__(self, t, sort: TOpt):
        self.t = t
        self.sort = sort


class VDict(Val):
    def __init__(self, t, sort: TDict):
        self.t = t
        self.sort = sort


class VSet(Val):
    def __init__(self, t, sort: TSet):
        self.t = t
        self.sort = sort


class VMap(Val):
    def __init__(self, t, sort: TMap):
        self.t = t
        self.sort = sort


class VUnion(Val):
    sort = None

    def __init__(self, t, ref_cls=None):
        self.t = t
        self.sort = PyU
        self.ref_cls = ref_cls


class VConcDict(Val):
    "dict with concrete structure: list of (key Val, value Val) -- keys must be pairwise distinct concretely"

    def __init__(self, items):
        self.items = list(items)

    def __repr__(self):
        return "VConcDict(%r)" % (self.items,)


class VFunc(Val):
    "callable: kind in {'repo','builtin','lambda','bound','external','closure'}"

    def __init__(self, kind, target, self_val=None, env=None, qn=None):
        self.kind = kind
        self.target = target
        self.self_val = self_val
        self.env = env
        self.qn = qn

    def __repr__(self):
        return "VFunc(%s,%s)" % (self.kind, self.qn or self.target)


class VFuncRef(Val):
    "closure id read back from the heap"
    sort = Func

    def __init__(self, t):
        self.t = t


class VModule(Val):
    def __init__(self, qn):
        self.qn = qn

    def __repr__(self):
        return "VModule(%s)" % self.qn


class VOpaque(Val):
    "value we carry around but never look into (e.g. exception message)"

    def __init__(self, what=""):
        self.what = what

    def __repr__(self):
        return "VOpaque(%s)" % self.what


def mk_val(t, sort: Sort):
    "wrap a z3 term of the given sort descriptor"
    if isinstance(sort, TIntS):
        return VInt(t)
    if isinstance(sort, TBoolS):
        return VBool(t)
    if isinstance(sort, TStrS):
        return VStr(t)
    if isinstance(sort, TRefS):
        return VRef(t, sort.cls)
    if isinstance(sort, TTypeS):
        return VType(t)
    if isinstance(sort, TFuncS):
        return VFuncRef(t)
    if isinstance(sort, TAbs):
        return VAbs(t, sort)
    if isinstance(sort, TList):
        return VList(t, sort)
    if isinstance(sort, TRec):
        return VRec(t, sort)
    if isinstance(sort, TOpt):
        return VOpt(t, sort)
    if isinstance(sort, TDict):
        return VDict(t, sort)
    if isinstance(sort, TSet):
        return VSet(t, sort)
    if isinstance(sort, TMap):
        return VMap(t, sort)
    if isinstance(sort, TUnionS):
        return VUnion(t)
    if isinstance(sort, TTup):
        dt = sort.z3()
        return VTuple([mk_val(dt.accessor(0, i)(t), s) for i, s in enumerate(sort.items)])
    raise TypeError("mk_val: %r" % (sort,))


_fresh_n = [0]


def fresh(sort: Sort, hint="v"):
    _fresh_n[0] += 1
    if isinstance(sort, TTup):
        return VTuple([fresh(s, hint + "_%d" % i) for i, s in enumerate(sort.items)])
    return mk_val(z3.Const("%s!%d" % (hint, _fresh_n[0]), sort.z3()), sort)
