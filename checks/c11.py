"""C11 bounded stand-in (never counted as proved): hygiene of the argument substitution done by the REAL
func_adl_xAOD.common.cpp_ast.process_ast_node, whose text side (regular expressions over str) is outside the deductive
encoding.  Oracle, written from the property statement: every maximal run of word characters of a code line that equals a
formal parameter is replaced by the C++ text of the corresponding actual argument, everything else is unchanged, all
parameters at once (the inserted text is never scanned again), the method object name is bound to the receiver's C++.
Bound: formals from a pool of 7 names (1..3 of them, distinct), actuals from a pool of 12 C++ texts (including texts that
contain other formals, regex metacharacters and backslashes), 14 code-line shapes; quick = every (formals, line) with 2 actual
assignments each, thorough = all assignments up to 3 formals + 4000 random mixtures.  Plus three end-to-end queries through the
real executor with add_cpp_function metadata."""
import ast
import itertools
import json
import os
import random
import sys

results = []
TIER = os.environ.get("VERIF_TIER", "quick")
SEED = int(os.environ.get("VERIF_SEED", "0") or 0)

FORMALS = ["pt", "eta", "p", "pt_x", "x", "obj_j", "e1"]
ACTUALS = ["j.eta()", "i_obj2->pt()", "pt", "eta", "(pt+eta)", "x", "p->x", "a.b[0]", "1.0e1", "\\1", "m\\g<0>", "f(\"a\\n\")"]
LINES = ["auto r = {0} + {1};", "{0}", "{0}{1}", "{0} {0}", "x{0}", "{0}_x = {1};", "obj->{0}();", "{1}.{0}", "r = {0}*{2} - {1}*{0};",
         "// nothing here", "", "{2}+{2}", "std::{0}({1}, {2})", "{0}\\n{1}"]


def is_word(c):
    return c.isalnum() or c == "_"


def oracle(line, pairs):
    "simultaneous whole-word substitution, written without regular expressions"
    look = {}
    for s, d in pairs:
        look.setdefault(s, d)
    out, i = [], 0
    while i < len(line):
        if is_word(line[i]):
            j = i
            while j < len(line) and is_word(line[j]):
                j += 1
            w = line[i:j]
            out.append(look.get(w, w))
            i = j
        else:
            out.append(line[i])
            i += 1
    return "".join(out)


def run_case(formals, actuals, lines, method_obj=None, fields=()):
    "call the real process_ast_node; returns (emitted lines of the new block, structural facts)"
    import func_adl_xAOD.common.cpp_representation as crep
    import func_adl_xAOD.common.cpp_types as ctyp
    import func_adl_xAOD.common.statement as statements
    from func_adl_xAOD.atlas.xaod.query_ast_visitor import atlas_xaod_query_ast_visitor
    from func_adl_xAOD.common.cpp_ast import CPPCodeValue, process_ast_node

    class V(atlas_xaod_query_ast_visitor):
        def resolve_id(self, id):
            n = ast.Name(id=id, ctx=ast.Load())
            crep.set_rep(n, crep.cpp_value(method_obj[1], self._gc.current_scope(), ctyp.terminal("double")))
            return n
    v = V()
    gc = v._gc
    outer = gc.current_scope()
    outer_block = gc._scope_stack[-1]
    n_vars0 = len(outer_block._variables)
    c = CPPCodeValue()
    c.args = list(formals)
    c.running_code = list(lines)
    c.result = "r_out"
    c.include_files = ["inc_a.h", "inc_b.h"]
    c.link_libraries = ["libA"]
    c.result_rep = lambda sc: crep.cpp_variable("res77", sc, ctyp.terminal("double"))
    if method_obj is not None:
        c.replacement_instance_obj = (method_obj[0], "the_receiver")
    call_args = []
    for a in actuals:
        n = ast.Name(id="n", ctx=ast.Load())
        crep.set_rep(n, crep.cpp_value(a, outer, ctyp.terminal("double")))
        call_args.append(n)
    call = ast.Call(func=c, args=call_args, keywords=[])
    r = process_ast_node(v, gc, call)
    blks = [s for s in outer_block._statements if isinstance(s, statements.block)]
    facts = dict(result_is_new_var=r.as_cpp() == "res77", declared_outside=any(x is r for x in outer_block._variables[n_vars0:]),
                 one_block=len(blks) == 1, includes=all(i in gc.include_files() for i in c.include_files),
                 libs=all(i in gc.link_libraries() for i in c.link_libraries), scope_restored=gc.current_scope().starts_with(outer) and outer.starts_with(gc.current_scope()))
    got = []
    if blks:
        st = blks[0]._statements
        got = [s._line for s in st[:-1] if isinstance(s, statements.arbitrary_statement)]
        facts["last_is_set_result"] = isinstance(st[-1], statements.set_var) and st[-1]._target is r and st[-1]._value.as_cpp() == "r_out"
        facts["one_statement_per_line"] = len(st) == len(lines) + 1 and len(got) == len(lines)
    return got, facts


def cases():
    rnd = random.Random(SEED)
    for k in (1, 2, 3):
        for formals in itertools.permutations(FORMALS, k):
            if TIER == "quick" and rnd.random() > (1.0 if k == 1 else 0.35 if k == 2 else 0.05):
                continue
            lines = [t.format(*(list(formals) + ["zz", "zz"])[:3]) for t in LINES]
            assigns = itertools.product(ACTUALS, repeat=k) if (TIER != "quick" and k <= 2) else [tuple(rnd.choice(ACTUALS) for _ in range(k)) for _ in range(2 if TIER == "quick" else 40)]
            for actuals in assigns:
                yield list(formals), list(actuals), lines, None
    # the classic swap, and the method object
    yield ["pt", "eta"], ["j.eta()", "j.pt()"], ["pt + eta"], None
    yield ["pt", "eta"], ["eta", "pt"], ["pt + eta", "eta - pt"], None
    yield ["x"], ["obj_j"], ["obj_j->f(x)"], ("obj_j", "i_obj3")
    yield ["x"], ["i_obj3->x()"], ["obj_j->f(x)"], ("obj_j", "x")
    n_rand = 0 if TIER == "quick" else 4000
    for _ in range(n_rand):
        k = rnd.randint(1, 3)
        formals = rnd.sample(FORMALS, k)
        toks = FORMALS + ACTUALS + [" ", "+", "->", "(", ")", ";", "_", "9", ".", "\\", "$"]
        lines = ["".join(rnd.choice(toks) for _ in range(rnd.randint(0, 7))) for _ in range(rnd.randint(0, 3))]
        yield formals, [rnd.choice(ACTUALS) for _ in range(k)], lines, (("obj_j", rnd.choice(ACTUALS)) if rnd.random() < 0.3 and "obj_j" not in formals else None)


def unit_level():
    evals, bad, bad_struct = 0, None, None
    for formals, actuals, lines, mo in cases():
        try:
            got, facts = run_case(formals, actuals, lines, mo)
        except Exception as e:  # noqa
            if not bad:
                bad = ("process_ast_node raised %r" % (e,), dict(formals=formals, actuals=actuals, lines=lines, method_object=mo))
            continue
        evals += 1
        pairs = ([(mo[0], mo[1])] if mo else []) + list(zip(formals, actuals))
        want = [oracle(ln, pairs) for ln in lines]
        if got != want and not bad:
            k = next(i for i in range(max(len(got), len(want))) if i >= len(got) or i >= len(want) or got[i] != want[i])
            bad = ("formals %r <- actuals %r%s: code line %r became %r, simultaneous whole-word substitution gives %r"
                   % (formals, actuals, " (method object %s <- %s)" % mo if mo else "", lines[k] if k < len(lines) else None,
                      got[k] if k < len(got) else None, want[k] if k < len(want) else None),
                   dict(formals=formals, actuals=actuals, lines=lines, method_object=mo))
        miss = [f for f, ok in facts.items() if not ok]
        if miss and not bad_struct:
            bad_struct = ("structural facts violated: %s" % ", ".join(miss), dict(formals=formals, actuals=actuals, lines=lines, method_object=mo))
    results.append(dict(name="C11/process_ast_node/bounded:simultaneous_whole_word_substitution", kind="bounded", status="violation" if bad else "ok",
                        evaluations=evals, distinct=evals, exhaustive=False,
                        bound="1..3 formals from 7 names, actuals from 12 C++ texts, 14 line shapes%s" % ("" if TIER == "quick" else " (all assignments for <=2 formals) + 4000 random mixtures"),
                        detail=bad[0] if bad else "", input=bad[1] if bad else None))
    results.append(dict(name="C11/process_ast_node/bounded:block_result_includes", kind="bounded", status="violation" if bad_struct else "ok",
                        evaluations=evals, distinct=evals, exhaustive=False, bound="same cases",
                        detail=bad_struct[0] if bad_struct else "", input=bad_struct[1] if bad_struct else None))


def end_to_end():
    sys.path.insert(0, os.path.dirname(os.path.dirname(os.path.abspath(__file__))))
    import replay_drivers as RD
    evals, bad = 0, None
    specs = [
        (["pt", "eta"], "e.Jets('J').Select(lambda j: MyF(j.eta(), j.pt()))", ["auto r_out = pt + eta;"], lambda a: "auto r_out = %s + %s;" % (a[0], a[1])),
        (["a", "ab"], "e.Jets('J').Select(lambda j: MyF(j.pt(), j.eta()))", ["auto r_out = ab*a + a_b;"], lambda a: "auto r_out = %s*%s + a_b;" % (a[1], a[0])),
        (["x"], "e.Jets('J').Select(lambda j: MyF(MyF(j.pt())))", ["auto r_out = x*2;"], None),
    ]
    import re as _re
    for formals, q, code, want in specs:
        for backend in ("atlas", "cms_aod", "cms_miniaod"):
            try:
                ds = RD._dataset().MetaData(dict(metadata_type="add_cpp_function", name="MyF", include_files=["myf.h"], arguments=formals, code=code,
                                                 result_name="r_out", return_type="double"))
                qb = q if backend == "atlas" else q.replace("e.Jets('J')", "e.Muons('J')")
                qq = ds.SelectMany("lambda e: " + qb).AsROOTTTree("f.root", "t", ["c"])
                info, files = RD.translate(qq, backend)
            except Exception as e:  # noqa
                if not bad:
                    bad = ("translation raised %r" % (e,), dict(query=q, backend=backend))
                continue
            evals += 1
            text = files.get("query.cxx") or files.get("analyzer.cc") or "".join(v for k, v in files.items() if k.endswith((".cxx", ".cc")))
            lines = [ln.strip() for ln in text.split("\n") if "auto r_out" in ln]
            if '#include "myf.h"' not in text and "#include <myf.h>" not in text and "myf.h" not in text:
                bad = bad or ("include file myf.h of the function is not requested by the generated source", dict(query=q, backend=backend))
            if want is not None:
                # actual argument texts: whatever object the loop uses; recover it from the emitted line itself
                m = [ln for ln in lines]
                ok = len(m) == 1
                if ok:
                    objs = _re.findall(r"((?:\(\*)?i_obj\d+\)?(?:->|\.)(?:eta|pt)\(\))", m[0])
                    e_txt = next((o for o in objs if "eta" in o), None)
                    p_txt = next((o for o in objs if "pt" in o), None)
                    args = [e_txt, p_txt] if "j.eta(), j.pt()" in q else [p_txt, e_txt]
                    ok = e_txt is not None and p_txt is not None and m[0] == want(args)
                if not ok and not bad:
                    bad = ("%s backend: MyF%r with code %r called as %s emitted %r" % (backend, tuple(formals), code[0], q, m), dict(query=q, backend=backend, formals=formals, code=code))
            else:
                if len(lines) != 2 and not bad:
                    bad = ("nested call MyF(MyF(x)) should emit the code twice, found %r" % (lines,), dict(query=q, backend=backend))
    results.append(dict(name="C11/bounded:end_to_end_substitution", kind="bounded", status="violation" if bad else "ok", evaluations=evals, distinct=evals, exhaustive=False,
                        bound="3 function specifications x 3 backends through the real executor", detail=bad[0] if bad else "", input=bad[1] if bad else None))


def two_functions():
    "two injected functions / a function and a method in one query: every call site gets the code, includes and arity of its OWN function"
    sys.path.insert(0, os.path.dirname(os.path.dirname(os.path.abspath(__file__))))
    import replay_drivers as RD
    evals, bad = 0, None
    mds = [dict(metadata_type="add_cpp_function", name="FuncA", include_files=["fa.h"], arguments=["x"], code=["auto ra = codeA(x);"], result_name="ra", return_type="double"),
           dict(metadata_type="add_cpp_function", name="FuncB", include_files=["fb.h"], arguments=["x", "y"], code=["auto rb = codeB(x, y);"], result_name="rb", return_type="double"),
           dict(metadata_type="add_cpp_function", name="FuncC", include_files=["fc.h"], arguments=[], code=["auto rc = codeC();"], result_name="rc", return_type="int")]
    for order in itertools.permutations(range(3)):
        for backend in ("atlas", "cms_aod", "cms_miniaod"):
            ds = RD._dataset()
            for k in order:
                ds = ds.MetaData(mds[k])
            coll = "e.Jets('J')" if backend == "atlas" else "e.Muons('J')"
            q = ds.SelectMany("lambda e: " + coll).Select("lambda j: (FuncA(j.pt()), FuncB(j.pt(), j.eta()), FuncC())").AsROOTTTree("f.root", "t", ["a", "b", "c"])
            try:
                info, files = RD.translate(q, backend)
            except Exception as e:  # noqa
                bad = bad or ("translation raised %r" % (e,), dict(order=order, backend=backend))
                continue
            evals += 1
            text = "".join(v for k, v in files.items() if k.endswith((".cxx", ".cc")))
            for nm, marker, inc in (("FuncA", "codeA(", "fa.h"), ("FuncB", "codeB(", "fb.h"), ("FuncC", "codeC(", "fc.h")):
                if text.count(marker) != 1 or inc not in text:
                    bad = bad or ("%s backend, functions declared in order %r: the call of %s is not expanded to its own code exactly once with its include (%s x%d, %s %s)" % (
                        backend, [mds[k]["name"] for k in order], nm, marker, text.count(marker), inc, "present" if inc in text else "missing"), dict(order=order, backend=backend))
    results.append(dict(name="C11/bounded:each_call_site_gets_its_own_function", kind="bounded", status="violation" if bad else "ok", evaluations=evals, distinct=evals, exhaustive=True,
                        bound="3 injected functions (arity 1, 2, 0) declared in every order x 3 backends through the real executor", detail=bad[0] if bad else "", input=bad[1] if bad else None))


def late_binding_lint():
    """static obligation (AST of the real sources, every run): a callback created inside a loop or comprehension and kept beyond the iteration
    (dict / list element, attribute, appended, returned) must not read the iteration variable as a free variable -- Python binds it late, so
    every callback would see the LAST element (the call-site table of injected functions and collections is built this way)."""
    REPO = os.environ.get("PYVC_REPO", "/repo")
    bad, n = [], 0
    for d, _, fs in os.walk(os.path.join(REPO, "func_adl_xAOD")):
        for f in fs:
            if not f.endswith(".py") or os.sep + "template" + os.sep in os.path.join(d, f):
                continue
            path = os.path.join(d, f)
            tree = ast.parse(open(path, encoding="utf-8").read())
            parents = {}
            for node in ast.walk(tree):
                for ch in ast.iter_child_nodes(node):
                    parents[ch] = node
            for lam in [x for x in ast.walk(tree) if isinstance(x, (ast.Lambda, ast.FunctionDef))]:
                # iteration variables of enclosing loops / comprehensions inside the same function
                itvars, p, kept, child = set(), parents.get(lam), False, lam
                while p is not None and not isinstance(p, (ast.FunctionDef, ast.AsyncFunctionDef, ast.ClassDef, ast.Module)) or (isinstance(p, ast.FunctionDef) and p is lam):
                    if isinstance(p, (ast.For, ast.AsyncFor)) and child in p.body + p.orelse:
                        itvars |= {x.id for x in ast.walk(p.target) if isinstance(x, ast.Name)}
                    if isinstance(p, (ast.ListComp, ast.SetComp, ast.DictComp, ast.GeneratorExp)):
                        for g in p.generators:
                            itvars |= {x.id for x in ast.walk(g.target) if isinstance(x, ast.Name)}
                        if isinstance(p, (ast.ListComp, ast.SetComp, ast.DictComp)):
                            kept = True
                    if isinstance(p, (ast.Dict, ast.List, ast.Tuple, ast.Return)) or (isinstance(p, ast.Assign)) or \
                            (isinstance(p, ast.Call) and isinstance(p.func, ast.Attribute) and p.func.attr in ("append", "update", "setdefault", "extend", "insert", "add")):
                        kept = True
                    child, p = p, parents.get(p)
                if not itvars:
                    continue
                n += 1
                a = lam.args
                bound = {x.arg for x in a.posonlyargs + a.args + a.kwonlyargs} | ({a.vararg.arg} if a.vararg else set()) | ({a.kwarg.arg} if a.kwarg else set())
                body = lam.body if isinstance(lam, ast.Lambda) else ast.Module(body=lam.body, type_ignores=[])
                local_store = {x.id for x in ast.walk(body) if isinstance(x, ast.Name) and isinstance(x.ctx, ast.Store)}
                free = {x.id for x in ast.walk(body) if isinstance(x, ast.Name) and isinstance(x.ctx, ast.Load)} - bound - local_store
                late = sorted(free & itvars)
                if late and kept:
                    bad.append("%s:%d a callback kept beyond the iteration reads the iteration variable %s as a free variable (bound late: every callback sees the last element)" % (
                        os.path.relpath(path, REPO), lam.lineno, ", ".join(late)))
    results.append(dict(name="C11/static:callbacks_bind_their_own_specification", kind="static", status="violation" if bad else "ok", detail="; ".join(bad), input=bad or None))
    results.append(dict(name="C11/static:callbacks_scanned", kind="static", status="ok", detail="%d callbacks created inside loops / comprehensions" % n))


for fn, nm in ((unit_level, "C11/process_ast_node/bounded"), (end_to_end, "C11/bounded:end_to_end_substitution"),
               (two_functions, "C11/bounded:each_call_site_gets_its_own_function"), (late_binding_lint, "C11/static:callbacks_bind_their_own_specification")):
    try:
        fn()
    except Exception as e:  # noqa
        import traceback
        results.append(dict(name=nm, kind="bounded", status="undecided", detail="crashed: %r %s" % (e, traceback.format_exc()[-600:])))
print(json.dumps(dict(results=results)))
