# C05 / C01 / C03 -- where the value of one column is stored before the Fill (query_ast_visitor.code_fill_ttree).
# The scalar branch is verified (theorem contract: the general, assumed contract of c03_schema.py is what call sites see; the branch for
# sequences recurses through a nested closure and stays under the common visitor contract).


def starts(a, b):
    "a.starts_with(b) for scope tokens (c01_scopes.py: prefix order on block stacks, the top-level token below everything)"
    return is_top(b) if is_top(a) else (is_top(b) or prefix_of(stack_of(b), stack_of(a)))


def fill_target(e_rep, scope_fill):
    "a value is stored where it was computed when that is inside the fill scope, else at the fill scope"
    return scope_of(e_rep) if starts(scope_of(e_rep), scope_fill) else scope_fill


contract(TR + "query_ast_visitor.code_fill_ttree#scalar", props=["C05", "C01", "C03"],
         params=dict(self=QV, e_rep=VAL, e_name=VAL, scope_fill=RefOf(SCOPE)), result=RefOf(SCOPE),
         requires=CVC_REQUIRES + [("scalar_column", "e_rep != None and live(e_rep) and not isinst(e_rep, '" + P + "cpp_representation.cpp_collection')"),
                                  ("scopes", "scope_fill != None and live(scope_fill) and scope_of(e_rep) != None and live(scope_of(e_rep))"),
                                  ("storage", "e_name != None and live(e_name)"),
                                  ("cursor", "len(cursor(self)) >= 1 and all(b != None and live(b) for b in cursor(self))"),
                                  ("open_blocks", "all(b != None and live(b) for b in stack_of(scope_fill)) and len(stack_of(scope_fill)) >= 1 and "
                                                  "all(b != None and live(b) for b in stack_of(scope_of(e_rep))) and len(stack_of(scope_of(e_rep))) >= 1")],
         modifies=["_scope_stack", "_statements", "_target", "_value", "alloc"],
         local_sorts=dict(g_blk=RefOf(BLOCK), g_n=Int), ghost_init=["g_blk = None", "g_n = 0"],
         ghost={"after:self._gc.add_statement(statement.set_var(e_name, e_rep))": ["g_blk = top_block(cursor(self))", "g_n = len(field(g_blk, '_statements')) - 1"]},
         ensures=[("stored_at_its_own_scope_or_the_fill_scope@C05,C01",
                   "seq_eq(cursor(self), (old(cursor(self))[0:1] if is_top(fill_target(e_rep, scope_fill)) else stack_of(fill_target(e_rep, scope_fill))))"),
                  ("one_assignment_of_the_value_to_the_column@C03,C05",
                   "final_g_blk != None and final_g_blk == top_block(cursor(self)) and len(field(final_g_blk, '_statements')) == final_g_n + 1 and "
                   "final_g_n == len(old(field(final_g_blk, '_statements'))) and "
                   "cls_is(last_stmt(final_g_blk), '" + BLK + "set_var') and is_new(last_stmt(final_g_blk)) and "
                   "field(last_stmt(final_g_blk), '_target') == e_name and field(last_stmt(final_g_blk), '_value') == e_rep"),
                  ("fill_scope_only_deepens@C05,C01",
                   "result == scope_fill or (is_new(result) and seq_eq(stack_of(result), cursor(self)) and starts(result, scope_fill))"),
                  ("nothing_else_written", "monotone('_statements') and stable_except('_scope_stack', gc_of(self))")])
# ---- vector column (a sequence of plain values): one push_back of the element into the column, where the element is visible (or at the fill
# scope when the element was computed above it); the fill scope is returned unchanged -------------------------------------------------------------
PUSHB = "func_adl_xAOD.common.statement.push_back"
contract(TR + "query_ast_visitor.code_fill_ttree#vector", props=["C05", "C01", "C03"],
         params=dict(self=QV, e_rep=RefOf(SEQ_CLS), e_name=VAL, scope_fill=RefOf(SCOPE)), result=RefOf(SCOPE),
         requires=CVC_REQUIRES + [("vector_column", "e_rep != None and live(e_rep) and field(e_rep, '_sequence') != None and live(field(e_rep, '_sequence')) and "
                                                   "isinst(field(e_rep, '_sequence'), '" + P + "cpp_representation.cpp_value')"),
                                  ("scopes", "scope_fill != None and live(scope_fill) and field(e_rep, '_scope', '" + SEQ_CLS + "') != None and live(field(e_rep, '_scope', '" + SEQ_CLS + "'))"),
                                  ("storage", "e_name != None and live(e_name)"),
                                  ("cursor", "len(cursor(self)) >= 1 and all(b != None and live(b) for b in cursor(self))"),
                                  ("open_blocks", "all(b != None and live(b) for b in stack_of(scope_fill)) and len(stack_of(scope_fill)) >= 1 and "
                                                  "all(b != None and live(b) for b in stack_of(field(e_rep, '_scope', '" + SEQ_CLS + "'))) and "
                                                  "len(stack_of(field(e_rep, '_scope', '" + SEQ_CLS + "'))) >= 1")],
         modifies=["_scope_stack", "_statements", "_collection", "_element", "_target", "_value", "alloc"],
         may_raise=["Exception"], strict=False,
         local_sorts=dict(g_blk=RefOf(BLOCK), g_n=Int), ghost_init=["g_blk = None", "g_n = 0"],
         ghost={"after:self._gc.add_statement(statement.push_back(accumulator, inner))": ["g_blk = top_block(cursor(self))", "g_n = len(field(g_blk, '_statements')) - 1"]},
         ensures=[("pushed_where_the_element_is_visible_or_at_the_fill_scope@C05,C01",
                   "seq_eq(cursor(self), (old(cursor(self))[0:1] if is_top(seq_fill_target(e_rep, scope_fill)) else stack_of(seq_fill_target(e_rep, scope_fill))))"),
                  ("one_push_back_of_the_element_into_the_column@C03,C05",
                   "final_g_blk != None and final_g_blk == top_block(cursor(self)) and len(field(final_g_blk, '_statements')) == final_g_n + 1 and "
                   "final_g_n == len(old(field(final_g_blk, '_statements'))) and "
                   "cls_is(last_stmt(final_g_blk), '" + PUSHB + "') and is_new(last_stmt(final_g_blk)) and "
                   "field(last_stmt(final_g_blk), '_target') == e_name and field(last_stmt(final_g_blk), '_value') == field(e_rep, '_sequence')"),
                  ("fill_scope_unchanged@C05", "result == scope_fill"),
                  ("nothing_else_written", "monotone('_statements') and stable_except('_scope_stack', gc_of(self))")])


def seq_fill_target(e_rep, scope_fill):
    return field(e_rep, "_scope", "func_adl_xAOD.common.cpp_representation.cpp_sequence") if starts(field(e_rep, "_scope", "func_adl_xAOD.common.cpp_representation.cpp_sequence"), scope_fill) else scope_fill

# ---- jagged column (a sequence of sequences of plain values): a new block-local vector is declared for the inner level, the inner elements are
# pushed into it, and IT is pushed into the column -----------------------------------------------------------------------------------------------
contract(TR + "query_ast_visitor.code_fill_ttree#nested", props=["C05", "C03"],
         params=dict(self=QV, e_rep=RefOf(SEQ_CLS), e_name=VAL, scope_fill=RefOf(SCOPE)), result=RefOf(SCOPE),
         requires=CVC_REQUIRES + [("jagged_column", "e_rep != None and live(e_rep) and field(e_rep, '_sequence') != None and live(field(e_rep, '_sequence')) and "
                                                   "isinst(field(e_rep, '_sequence'), '" + SEQ_CLS + "') and field(field(e_rep, '_sequence'), '_sequence') != None and "
                                                   "live(field(field(e_rep, '_sequence'), '_sequence')) and isinst(field(field(e_rep, '_sequence'), '_sequence'), '" + P + "cpp_representation.cpp_value') and "
                                                   "field(e_rep, '_node') != None and live(field(e_rep, '_node'))"),
                                  ("inner_type", "field(field(e_rep, '_sequence'), '_type', '" + SEQ_CLS + "') == None or "
                                                 "(isinst(field(field(e_rep, '_sequence'), '_type', '" + SEQ_CLS + "'), 'func_adl_xAOD.common.cpp_types.collection') and "
                                                 "field(field(field(e_rep, '_sequence'), '_type', '" + SEQ_CLS + "'), '_tree_type') == None)"),
                                  ("scopes", "scope_fill != None and live(scope_fill) and field(e_rep, '_scope', '" + SEQ_CLS + "') != None and live(field(e_rep, '_scope', '" + SEQ_CLS + "')) and "
                                             "field(field(e_rep, '_sequence'), '_scope', '" + SEQ_CLS + "') != None and live(field(field(e_rep, '_sequence'), '_scope', '" + SEQ_CLS + "'))"),
                                  ("storage", "e_name != None and live(e_name)"),
                                  ("cursor", "len(cursor(self)) >= 1 and all(b != None and live(b) for b in cursor(self))"),
                                  ("open_blocks", "all(b != None and live(b) for b in stack_of(scope_fill)) and len(stack_of(scope_fill)) >= 1 and "
                                                  "all(b != None and live(b) for b in stack_of(field(e_rep, '_scope', '" + SEQ_CLS + "'))) and len(stack_of(field(e_rep, '_scope', '" + SEQ_CLS + "'))) >= 1 and "
                                                  "all(b != None and live(b) for b in stack_of(field(field(e_rep, '_sequence'), '_scope', '" + SEQ_CLS + "'))) and "
                                                  "len(stack_of(field(field(e_rep, '_sequence'), '_scope', '" + SEQ_CLS + "'))) >= 1")],
         modifies=CVC_MODIFIES + ["_collection", "_element", "_target", "_value", "_expression", "_scope", "_cpp_type", "_initial_value", "_type@" + SEQ_CLS],
         may_raise=["Exception"], strict=False,
         local_sorts=dict(g_push=TList(Ref), storage=VAL), ghost_init=["g_push = []"],
         ghost={"after:self._gc.add_statement(statement.push_back(accumulator, inner))": ["g_push = g_push + [last_stmt(top_block(cursor(self)))]"]},
         ensures=[("two_levels_two_push_backs@C05,C03", "len(final_g_push) == 2 and cls_is(final_g_push[0], '" + PUSHB + "') and cls_is(final_g_push[1], '" + PUSHB + "')"),
                  ("inner_elements_into_a_new_vector_that_goes_into_the_column@C05,C03",
                   "field(final_g_push[1], '_target') == e_name and field(final_g_push[0], '_value') == field(field(e_rep, '_sequence'), '_sequence') and "
                   "field(final_g_push[0], '_target') == field(final_g_push[1], '_value') and is_new(field(final_g_push[0], '_target')) and "
                   "cls_is(field(final_g_push[0], '_target'), '" + P + "cpp_representation.cpp_variable') and startswith(expr_of(field(final_g_push[0], '_target')), 'ntuple') and "
                   "field(field(final_g_push[0], '_target'), '_initial_value') == None"),
                  ("fill_scope_unchanged@C05", "result == scope_fill")] + CVC_ENSURES)
