"""Exec = all mixins; verify_function generates the obligations of one function against its contract."""
from __future__ import annotations
import ast
import z3
from .core import *
from .ops import *
from . import ops as ops_mod
from .sym import *
from .sym_expr import ExprMixin
from .sym_call import CallMixin, State_with_top
from .sym_builtin import BuiltinMixin
from .sym_stmt import StmtMixin
from .front import Repo
from .contract import Registry, Contract


class BindError(Exception):
    "the contract does not bind to the current source (function missing, parameters changed, ...): undecided"


class Exec(ExprMixin, CallMixin, BuiltinMixin, StmtMixin, ExecBase):
    def _hide(self, c, label, st):
        if label not in (c.needs or {}):
            return st
        keep = set(c.needs[label])
        sub = st.copy()
        sub.pc = [p for p in st.pc if self.inv_tags.get(p.get_id()) is None or self.inv_tags[p.get_id()] in keep]
        return sub

    def __init__(self, repo, reg, prop=""):
        ExecBase.__init__(self, repo, reg, prop)
        self.regions = {}  # (fn short name, label) -> [region expr strings] (known findings: excluded input regions)
        self.sha = {}
        self.skipped_clauses = []  # (label, anchor text) of clauses left undecided because their ghost anchor no longer binds

    def short(self, qn):
        parts = qn.split(".")
        return ".".join(parts[-2:]) if len(parts) > 2 and parts[-2][:1].isupper() or (len(parts) > 2 and parts[-2] in self._classnames()) else parts[-1]

    def _classnames(self):
        if not hasattr(self, "_cn"):
            self._cn = {c.split(".")[-1] for c in self.repo.classes()}
        return self._cn

    def verify_function(self, c: Contract):
        found = self.repo.find(c.qn)
        if found is None:
            raise BindError("function %s not found in the working tree" % c.qn)
        kind, node, mod, ci = found
        if kind == "class":
            raise BindError("%s is a class" % c.qn)
        self.cur_fn = self.short(c.qn)
        for d in getattr(node, "decorator_list", []) or []:
            dn = d.id if isinstance(d, ast.Name) else d.attr if isinstance(d, ast.Attribute) else (d.func.id if isinstance(d, ast.Call) and isinstance(d.func, ast.Name) else
                                                                                             d.func.attr if isinstance(d, ast.Call) and isinstance(d.func, ast.Attribute) else "?")
            if dn not in ("property", "staticmethod", "classmethod", "abstractmethod", "dataclass", "setter", "overload", "wraps"):
                raise BindError("%s is decorated with @%s, whose effect on the function is not modelled" % (c.qn, dn))
        self.force_inline = set(c.inline_callees or [])
        self.typing_exceptions = dict(c.typing_exceptions or {})
        self.sha[c.qn] = self.repo.seg_sha(mod, node)
        st = State_with_top(self.top0)
        env = {}
        if kind == "module":
            body = node.body
            fparams = []
        else:
            body = node.body
            a = node.args
            fparams = [x.arg for x in a.posonlyargs + a.args + a.kwonlyargs]
            if a.vararg or a.kwarg:
                raise BindError("*args/**kwargs in %s" % c.qn)
        for p in fparams:
            if p not in c.params:
                # parameter with a default that the contract leaves at its default
                dflt = self._default_of(node, p)
                if dflt is None:
                    raise BindError("parameter %s of %s is not described by the contract" % (p, c.qn))
                env[p] = self.default_value(dflt, mod, c.qn, p, st, Cx(mod, acc=[]))
        self.cur_fn = self.short(c.qn) + ("#" + c.key.split("#")[1] if "#" in c.key else "")
        if kind != "module" and c.local_sorts:
            # a contract that speaks about a local (final_<x>) binds only while the function still assigns a local of that name:
            # after a rename the contract is undecided, not violated
            stored = {n.id for n in ast.walk(node) if isinstance(n, ast.Name) and isinstance(n.ctx, ast.Store)}
            stored |= {a.arg for a in ast.walk(node) if isinstance(a, ast.arg)}
            ghosts = set()
            for gl in list(c.ghost_init or []) + [x for v in (c.ghost or {}).values() for x in v]:
                ghosts.add(gl.split("=", 1)[0].strip())
            for ln in c.local_sorts:
                if ln not in stored and ln not in ghosts and not ln.startswith("_"):
                    raise BindError("contract of %s mentions the local `%s`, which the function no longer assigns" % (c.qn, ln))
        if kind != "module" and c.ghost:
            # a ghost update is anchored at a statement by the prefix of its text: after a refactor that removes the statement the contract
            # no longer binds (undecided), instead of silently leaving the ghost variable at its initial value
            texts = [ast.unparse(n) for n in ast.walk(node) if isinstance(n, ast.stmt)]
            dead = [a for a in c.ghost if a.startswith("after:") and not any(t.startswith(a[6:]) for t in texts)]
            if dead:
                # partial binding: the ghost variables those anchors would have set are unknown; clauses that mention them are left
                # undecided one by one, every other clause of the contract is still verified.  A loop invariant that needs such a ghost
                # cannot be dropped (later proofs rest on it): then the whole contract is unbound.
                import copy as _copy, re as _re
                dead_ghosts = set()
                for a in dead:
                    for gl in c.ghost[a]:
                        dead_ghosts.add(gl.split("=", 1)[0].strip())
                mention = lambda txt: any(_re.search(r"\b(final_)?%s\b" % _re.escape(g), txt) for g in dead_ghosts)
                for k, lc in (c.loops or {}).items():
                    for it in lc.get("invariant", []):
                        if mention(it[1] if isinstance(it, tuple) else it):
                            raise BindError("ghost anchor `%s` of the contract of %s matches no statement of the function any more (and loop %s needs its ghost)" % (dead[0][6:], c.qn, k))
                for a in c.ghost:
                    if a not in dead and any(mention(gl.split("=", 1)[1]) for gl in c.ghost[a] if "=" in gl):
                        raise BindError("ghost anchor `%s` of the contract of %s matches no statement of the function any more" % (dead[0][6:], c.qn))
                c = _copy.copy(c)
                c.ghost = {a: v for a, v in c.ghost.items() if a not in dead}
                kept, skipped = [], []
                for lab, exx in c.ensures:
                    (skipped if mention(exx) else kept).append((lab, exx))
                c.ensures = kept
                self.skipped_clauses = [(lab, dead[0][6:]) for lab, _ in skipped]
        for p in c.params:
            if p not in fparams and kind != "module":
                raise BindError("contract parameter %s is not a parameter of %s" % (p, c.qn))
        for p, so in c.params.items():
            v = fresh(so, p)
            self.assume_wf(st, v, nullable=getattr(so, "nullable", False))
            env[p] = v
        for p, so in (c.logical or {}).items():
            v = fresh(so, p)
            self.assume_wf(st, v)
            env[p] = v
        for al, tgt in (c.aliases or {}).items():
            env[al] = env[tgt]
        st.env = env
        for lab, ex in c.requires:
            st.pc.append(truth(self.eval_spec(ex, st, env, None, c.module)))
        if not self.feasible(st):
            raise BindError("precondition of %s is unsatisfiable (vacuous contract)" % c.qn)
        for cv in c.covers:
            s2 = st.copy()
            g = truth(self.eval_spec(cv, s2, env, None, c.module))
            sol = z3.Solver()
            sol.set("timeout", 10000)
            for a in list(ops_mod.DEFAULT_AXIOMS) + list(self.axioms) + list(s2.pc) + [g]:
                sol.add(a)
            if sol.check() == z3.unsat:
                raise BindError("cover `%s` of %s is unreachable under its preconditions (vacuous case)" % (cv, c.qn))
            self.covers.append((c.key, cv))
        if getattr(c, "ghost_init", None):
            gcx = Cx(c.module, spec=True, acc=[], contract=None)
            st = self.exec_ghost(c.ghost_init, [st], Cx(mod, contract=c, acc=[]))[0]
        pre = st.copy()
        entry_env = dict(st.env)
        cx = Cx(mod, cls=ci, fn=c.qn, contract=c, pre=pre, acc=[], fn_node=node if kind != "module" else None,
                self_val=env.get("self"))
        cx.module_level = (kind == "module")
        res = self.exec_block(body, st, cx)
        npaths = 0
        for s, oc in res:
            if oc[0] not in ("normal", "return"):
                raise Unsupported("break/continue escaped %s" % c.qn)
            npaths += 1
            result = oc[1] if oc[0] == "return" else VNone()
            self._normal_exit(c, s, entry_env, pre, result)
        for r in cx.acc:
            npaths += 1
            self._raise_exit(c, r, entry_env, pre)
        self.paths += npaths
        return npaths

    def _default_of(self, node, p):
        a = node.args
        names = [x.arg for x in a.posonlyargs + a.args]
        if p in names:
            i = names.index(p) - (len(names) - len(a.defaults))
            return a.defaults[i] if i >= 0 else None
        for ka, d in zip(a.kwonlyargs, a.kw_defaults):
            if ka.arg == p:
                return d
        return None

    def _spec_env(self, c, s, entry_env, result=None):
        env = dict(entry_env)
        for g in getattr(c, "ghost_vars", []) or []:
            if g in s.env:
                env[g] = s.env[g]
        for k, v in s.env.items():
            env.setdefault("final_" + k, v)
        for k, so in (c.local_sorts or {}).items():
            if "final_" + k not in env:  # local not yet assigned on this exit path: arbitrary value
                env["final_" + k] = fresh(so, "undef_" + k)
        if result is not None:
            env["result"] = result
        return env

    def _with_regions(self, c, label, goal, st, env):
        regs = self.regions.get((self.cur_fn, label.split("@")[0]), [])
        for rx in regs:
            r = truth(self.eval_spec(rx, st, env, None, c.module))
            goal = z3.Or(r, goal)
        return goal

    def _frame_obligations(self, c, s, pre):
        "every heap field / global the body changed must be declared in `modifies` (changes to newly allocated objects excepted)"
        declared = set()
        for m in c.modifies:
            if m.startswith("global:") or m.startswith("ghost:") or m == "alloc":
                declared.add(m)
            else:
                name, cls = (m.split("@") + [None])[:2]
                declared.add(self.heap_key(name, cls))
                declared.add(name)
        for k, a in s.heap.items():
            base = pre.heap.get(k, self.init_heap.get(k))
            if base is not None and z3.eq(base, a):
                continue
            if k in declared or k.split("@")[0] in declared:
                continue
            if base is None:
                continue
            o = z3.FreshConst(z3.IntSort(), "fo")
            goal = z3.ForAll([o], z3.Implies(z3.And(o > 0, o < pre.top), z3.Select(a, o) == z3.Select(base, o)))
            self.oblige(s, goal, "frame", "unmodified[%s]" % k)
        if not any(not (m.startswith("global:") or m.startswith("ghost:")) for m in c.modifies):
            # callers of this contract keep the allocation top unchanged (apply_contract): the body must not allocate
            self.oblige(s, s.top == pre.top, "frame", "no_allocation")
        for k, v in s.glob.items():
            b = pre.glob.get(k, self.init_heap.get("G_" + k))
            if b is not None and b is not v and ("global:" + k) not in declared:
                try:
                    self.oblige(s, val_eq(v, b), "frame", "unmodified[global %s]" % k.split(".")[-1])
                except Unsupported:
                    pass

    def _normal_exit(self, c, s, entry_env, pre, result):
        self._frame_obligations(c, s, pre)
        env = self._spec_env(c, s, entry_env, result)
        if c.result is not None and not isinstance(result, VNone):
            try:
                env["result"] = coerce(self.narrow_deep(s, result, c.result), c.result)
            except Unsupported:
                env["result"] = result
        for exc, cond in c.raises.items():
            g = truth(self.eval_spec(cond, pre.copy(), entry_env, None, c.module))
            goal = self._with_regions(c, "no-raise[%s]" % exc, z3.Not(g), s, env)
            self.oblige(s, goal, "post", "no-raise[%s]" % exc)
        for lab, ex in c.ensures:
            g = truth(self.eval_spec(ex, s, env, pre, c.module))
            goal = self._with_regions(c, lab, g, s, env)
            self.oblige(self._hide(c, lab, s), goal, "ensures", lab)

    def _raise_exit(self, c, r, entry_env, pre):
        s = r.st
        self._frame_obligations(c, s, pre)
        env = self._spec_env(c, s, entry_env)
        matched = None
        for exc in c.raises:
            if self.repo.is_subclass(r.exc, self.exc_qn(exc)):
                matched = exc
                break
        short = r.exc.split(".")[-1]
        roi = [e for e in c.raises_only_if if self.repo.is_subclass(r.exc, self.exc_qn(e))]
        if roi:
            g = truth(self.eval_spec(c.raises_only_if[roi[0]], pre.copy(), entry_env, None, c.module))
            goal = self._with_regions(c, "raises_only_if[%s]" % roi[0], g, s, env)
            self.oblige(s, goal, "raises", "only_if[%s]" % roi[0])
        elif matched is not None and not c.strict:
            pass  # the exception is allowed; the `raises` clause only forbids a normal return under its condition
        elif matched is not None:
            g = truth(self.eval_spec(c.raises[matched], pre.copy(), entry_env, None, c.module))
            goal = self._with_regions(c, "raises[%s]" % matched, g, s, env)
            self.oblige(s, goal, "raises", "%s" % matched)
        elif any(self.repo.is_subclass(r.exc, self.exc_qn(e)) for e in c.may_raise):
            pass
        else:
            goal = self._with_regions(c, "unexpected[%s]" % short, z3.BoolVal(False), s, env)
            self.oblige(s, goal, "raises", "unexpected[%s]" % short)
        for key in (matched, short, "*"):
            for lab, ex in c.ensures_raise.get(key, []) if key else []:
                g = truth(self.eval_spec(ex, s, env, pre, c.module))
                self.oblige(self._hide(c, lab, s), self._with_regions(c, lab, g, s, env), "xensures", lab)
