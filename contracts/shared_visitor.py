# Shared vocabulary for the translator (query_ast_visitor) contracts.
P = "func_adl_xAOD.common."
TR = P + "ast_to_cpp_translator."
QV = RefOf(TR + "query_ast_visitor")
CVAL = P + "cpp_representation.cpp_value"
TERMQ = P + "cpp_types.terminal"
K_NONE, K_STR, K_INT, K_BOOL, K_FLOAT, K_OTHER = 0, 1, 2, 3, 4, 5


def rep_of(node):
    return field(node, "rep")


def expr_of(r):
    return field(r, "_expression", "func_adl_xAOD.common.cpp_representation.cpp_value")


def type_of(r):
    "the terminal object describing the C++ type of a value rep"
    return field(r, "_cpp_type", "func_adl_xAOD.common.cpp_representation.cpp_value")


def kind_of(r):
    "C++ type name of a value rep (int / float / double / bool / string / class name)"
    return field(type_of(r), "_type", "func_adl_xAOD.common.cpp_types.terminal")


def plain_value(r, text, kind):
    "r is a freshly built cpp_value with the given C++ text and a plain (non-pointer) terminal type of the given name"
    return (is_new(r) and cls_is(r, "func_adl_xAOD.common.cpp_representation.cpp_value") and expr_of(r) == text
            and is_new(type_of(r)) and cls_is(type_of(r), "func_adl_xAOD.common.cpp_types.terminal") and kind_of(r) == kind
            and field(type_of(r), "_p_depth") == 0)


def gc_of(v):
    return field(v, "_gc")


def cursor(v):
    "the translator's insertion cursor: the stack of open blocks"
    return field(gc_of(v), "_scope_stack")
