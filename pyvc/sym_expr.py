"""Expression evaluation (code mode: forks on implicit exceptions / short-circuit; spec mode: pure terms)."""
from __future__ import annotations
import ast
import z3
from .core import *
from .ops import *
from .sym import *


class ExprMixin:
    # ------------------------------------------------------------ entry points
    def ev(self, e, st, cx):
        m = getattr(self, "ev_" + type(e).__name__, None)
        if m is None:
            raise Unsupported("expression %s at line %s" % (type(e).__name__, getattr(e, "lineno", "?")))
        return m(e, st, cx)

    def ev_list(self, es, st, cx):
        "evaluate expressions left to right -> [(st, [vals])]"
        outs = [(st, [])]
        for e in es:
            nxt = []
            for s, vs in outs:
                if isinstance(e, ast.Starred):
                    for s2, v in self.ev(e.value, s, cx):
                        items = self.iter_items(v, s2, cx)
                        if items is None:
                            if isinstance(v, VList) and len(es) == 1:
                                from .sym_call import VStarList
                                nxt.append((s2, vs + [VStarList(v)]))
                                continue
                            raise Unsupported("*args over a symbolic sequence")
                        nxt.append((s2, vs + list(items)))
                else:
                    for s2, v in self.ev(e, s, cx):
                        nxt.append((s2, vs + [v]))
            outs = nxt
        return outs

    def ev1(self, e, st, cx):
        "spec-mode single-valued evaluation"
        r = self.ev(e, st, cx)
        if len(r) != 1:
            raise Unsupported("spec expression forked (%d results): %s" % (len(r), ast.unparse(e)))
        return r[0][1]

    # ------------------------------------------------------------ literals
    def ev_Constant(self, e, st, cx):
        v = e.value
        if v is None:
            return [(st, VNone())]
        if isinstance(v, bool):
            return [(st, VBool(v))]
        if isinstance(v, int):
            return [(st, VInt(v))]
        if isinstance(v, str):
            return [(st, VStr(v))]
        if isinstance(v, float):
            return [(st, VOpaque("float:%r" % v))]
        if v is Ellipsis:
            return [(st, VOpaque("...."))]
        raise Unsupported("constant %r" % (v,))

    def ev_Tuple(self, e, st, cx):
        return [(s, VTuple(vs)) for s, vs in self.ev_list(e.elts, st, cx)]

    def ev_List(self, e, st, cx):
        return [(s, VTuple(vs, is_list=True)) for s, vs in self.ev_list(e.elts, st, cx)]

    def ev_Dict(self, e, st, cx):
        if any(k is None for k in e.keys):
            raise Unsupported("dict splat")
        outs = []
        for s, ks in self.ev_list(e.keys, st, cx):
            for s2, vs in self.ev_list(e.values, s, cx):
                outs.append((s2, VConcDict(list(zip(ks, vs)))))
        return outs

    def ev_Set(self, e, st, cx):
        return [(s, VTuple(vs)) for s, vs in self.ev_list(e.elts, st, cx)]

    def ev_JoinedStr(self, e, st, cx):
        outs = [(st, z3.StringVal(""))]
        for part in e.values:
            nxt = []
            for s, acc in outs:
                if isinstance(part, ast.Constant):
                    nxt.append((s, z3.Concat(acc, z3.StringVal(part.value)) if part.value else acc))
                else:
                    if part.format_spec is not None:
                        raise Unsupported("format spec in f-string")
                    for s2, v in self.ev(part.value, s, cx):
                        for s3, sv in self.to_str(v, s2, cx, repr_=(part.conversion == 114)):
                            nxt.append((s3, z3.Concat(acc, sv.t)))
            outs = nxt
        return [(s, VStr(z3.simplify(t))) for s, t in outs]

    def ev_Lambda(self, e, st, cx):
        # closures are modelled as capturing the current VALUES of their free variables; Python binds them late.  The two agree unless a
        # free variable is re-bound after the closure was made -- the typical case is an iteration variable: refuse it (outside the subset)
        fn = getattr(cx, "fn_node", None)
        if fn is not None and not cx.spec:
            a = e.args
            bound = {x.arg for x in a.posonlyargs + a.args + a.kwonlyargs} | ({a.vararg.arg} if a.vararg else set()) | ({a.kwarg.arg} if a.kwarg else set())
            free = {n.id for n in ast.walk(e.body) if isinstance(n, ast.Name) and isinstance(n.ctx, ast.Load)} - bound
            itvars = set()
            for n in ast.walk(fn):
                if isinstance(n, (ast.For, ast.AsyncFor)) and any(x is e for x in ast.walk(n)):
                    itvars |= {x.id for x in ast.walk(n.target) if isinstance(x, ast.Name)}
                if isinstance(n, (ast.ListComp, ast.SetComp, ast.DictComp, ast.GeneratorExp)) and any(x is e for x in ast.walk(n)):
                    for g in n.generators:
                        itvars |= {x.id for x in ast.walk(g.target) if isinstance(x, ast.Name)}
            if free & itvars:
                raise Unsupported("lambda at line %d reads the iteration variable %s as a free variable (bound late in Python, early in this model)"
                                  % (e.lineno, ", ".join(sorted(free & itvars))))
        return [(st, VFunc("lambda", e, env=[dict(st.env)] + cx.closure, qn="<lambda>", self_val=cx))]

    # ------------------------------------------------------------ names
    def ev_Name(self, e, st, cx):
        n = e.id
        if n in st.env:
            return [(st, st.env[n])]
        for env in cx.closure:
            if n in env:
                return [(st, env[n])]
        return [(st, self.lookup_global(n, cx.mod, st, cx))]

    def lookup_global(self, n, mod, st, cx):
        if isinstance(mod, SpecModule):
            if n in mod.functions:
                return VFunc("spec", mod.functions[n], qn=n, env=mod)
            sf = self.reg.spec_function(n)
            if sf is not None:
                return VFunc("spec", sf[1], qn=n, env=sf[0])
            if n in self.reg.unint:
                return VFunc("unint", n, qn=n)
            if n in self.reg.ghosts:
                return self.ghost_get(st, n)
            if n in mod.ns and isinstance(mod.ns[n], (int, str, bool)) and not n.startswith("__"):
                x = mod.ns[n]
                return VBool(x) if isinstance(x, bool) else VInt(x) if isinstance(x, int) else VStr(x)
            if n in mod.ns and isinstance(mod.ns[n], Sort):
                return VOpaque(mod.ns[n])
            if n in SPEC_BUILTINS:
                return VFunc("builtin", n, qn="spec." + n)
            gs = [q for q in self.reg.globals if q.split(".")[-1] == n or q.split(":")[-1] == n]
            if len(gs) == 1:
                return self.glob_get(st, gs[0])
            # qualified aliases for classes:  C("pkg.mod.Class") handled by call
        else:
            if n == "__name__":
                return VStr(mod.qn)
            qn = mod.qn + "." + n
            if qn in self.reg.globals:
                return self.glob_get(st, qn)
            if qn in self.reg.records:
                return self.vtype(qn)
            if n in mod.functions:
                return VFunc("repo", mod.functions[n], qn=qn, env=mod)
            if n in mod.classes:
                return self.vtype(qn)
            if n in mod.assigns:
                return self.module_const(mod, n, cx)
            if n in mod.imports:
                imp = mod.imports[n]
                if imp[0] == "module":
                    return VModule(imp[1])
                return self.lookup_qualified(imp[1], imp[2], st, cx)
        if n in BUILTIN_NAMES:
            return VFunc("builtin", n, qn="builtins." + n)
        if n in BUILTIN_TYPES:
            return VType(z3.IntVal(self.class_id("builtins." + n)), "builtins." + n)
        if ("builtins." + n) in self.repo_external_classes():
            return self.vtype("builtins." + n)
        raise Unsupported("unresolved name %s in %s" % (n, getattr(mod, "qn", mod)))

    def repo_external_classes(self):
        from .front import EXTERNAL_BASES
        return EXTERNAL_BASES

    def lookup_qualified(self, modqn, name, st, cx):
        "name imported from module modqn"
        if self.repo.is_repo_module(modqn):
            m = self.repo.module(modqn)
            if name in m.functions or name in m.classes or name in m.assigns or name in m.imports \
                    or (m.qn + "." + name) in self.reg.globals:
                return self.lookup_global(name, m, st, cx.child(mod=m))
            # sub-module
            if self.repo.is_repo_module(modqn + "." + name):
                return VModule(modqn + "." + name)
            raise Unsupported("name %s not found in %s" % (name, modqn))
        qn = modqn + "." + name
        from .front import EXTERNAL_BASES
        if qn in EXTERNAL_BASES:
            return self.vtype(qn)
        if self.repo.is_repo_module(qn):
            return VModule(qn)
        return VFunc("external", qn, qn=qn)

    def module_const(self, mod, n, cx):
        "module-level constant (evaluated from its defining expression; must not depend on mutable state)"
        key = (mod.qn, n)
        if key not in self.const_cache:
            exprs = mod.assigns[n]
            if len(exprs) != 1:
                raise Unsupported("module global %s.%s assigned %d times and not declared as state" % (mod.qn, n, len(exprs)))
            st0 = State()
            st0.top = self.top0
            c0 = Cx(mod, spec=False, acc=[], depth=cx.depth + 1)
            r = self.ev(exprs[0], st0, c0)
            if len(r) != 1 or c0.acc or r[0][0].pc or r[0][0].heap:
                raise Unsupported("module constant %s.%s is not a pure constant" % (mod.qn, n))
            self.const_cache[key] = r[0][1]
        return self.const_cache[key]

    def glob_get(self, st, qn):
        if qn not in st.glob:
            s = self.reg.globals[qn]
            key = "G_" + qn
            if key not in self.init_heap:
                v = mk_val(z3.Const(key, s.z3()), s)
                self.init_heap[key] = v
                w = State()
                w.top = self.top0
                self.assume_wf(w, v)
                self.axioms.extend(w.pc)
            return self.init_heap[key]
        return st.glob[qn]

    def ghost_get(self, st, n):
        if n not in st.ghost:
            s = self.reg.ghosts[n]
            key = "GH_" + n
            if key not in self.init_heap:
                v = mk_val(z3.Const(key, s.z3()), s)
                self.init_heap[key] = v
                w = State()
                w.top = self.top0
                self.assume_wf(w, v)
                self.axioms.extend(w.pc)
            return self.init_heap[key]
        return st.ghost[n]

    # ------------------------------------------------------------ attribute
    def ev_Attribute(self, e, st, cx):
        outs = []
        for s, b in self.ev(e.value, st, cx):
            outs.extend(self.getattr_(b, e.attr, s, cx, e))
        return outs

    def getattr_(self, b, attr, st, cx, node=None):
        if isinstance(b, VModule):
            if self.repo.is_repo_module(b.qn):
                return [(st, self.lookup_qualified(b.qn, attr, st, cx))]
            return [(st, self.lookup_qualified(b.qn, attr, st, cx))]
        if isinstance(b, VOpt):
            # implicit unwrap: attribute access on None raises AttributeError
            t, f = self.fork(st, b.sort.is_none(b.t))
            outs = []
            if t is not None:
                if cx.spec:
                    pass
                else:
                    self.raise_(cx, t, "builtins.AttributeError")
            if f is not None:
                outs.extend(self.getattr_(mk_val(b.sort.the(b.t), b.sort.inner), attr, f, cx, node))
            return outs
        if isinstance(b, VNone):
            if not cx.spec:
                self.raise_(cx, st, "builtins.AttributeError")
            return []
        if isinstance(b, VRec) and isinstance(b.sort, TKDict):
            return [(st, VFunc("builtin", "dict." + attr, self_val=b, qn="method." + attr))]
        if isinstance(b, VRec) and isinstance(b.sort, TUnionRec) and cx.spec:
            # contract expressions: total projection (members without the attribute contribute an arbitrary value)
            val = None
            for qn, rs in b.sort.members.items():
                if rs.fidx(attr) is None:
                    continue
                v = mk_val(rs.get(b.sort.get(b.t, b.sort.member_field(qn)), attr), rs.fsort(attr))
                val = v if val is None else self.ite(b.sort.get(b.t, "tag") == self.class_id(qn), v, val)
            if val is None:
                raise Unsupported("no member of %s has attribute %s" % (b.sort, attr))
            return [(st, val)]
        if isinstance(b, VRec) and isinstance(b.sort, TUnionRec):
            outs = []
            for qn, rs in b.sort.members.items():
                cond = b.sort.get(b.t, "tag") == self.class_id(qn)
                if not self.feasible(st, cond):
                    continue
                s2 = st.copy()
                s2.pc.append(cond)
                outs.extend(self.getattr_(VRec(b.sort.get(b.t, b.sort.member_field(qn)), rs), attr, s2, cx, node))
            return outs
        if isinstance(b, VRec):
            if b.sort.fidx(attr) is not None:
                return [(st, mk_val(b.sort.get(b.t, attr), b.sort.fsort(attr)))]
            if b.sort.cls:
                found = self.repo.find_method(b.sort.cls, attr)
                if found:
                    ci, fn = found
                    if attr in ci.props:
                        return self.call_repo(fn, ci.mod, ci, [b], {}, st, cx, qn=ci.qn + "." + attr)
                    return [(st, VFunc("repo", fn, self_val=b, env=ci.mod, qn=ci.qn + "." + attr, ))]
            raise Unsupported("record %s has no attribute %s" % (b.sort, attr))
        if isinstance(b, VRef):
            return self.getattr_ref(b, attr, st, cx, node)
        if isinstance(b, VSuper):
            for c in self.repo.mro(b.after_cls)[1:]:
                ci = self.repo.classes().get(c)
                if ci is not None and attr in ci.methods:
                    return [(st, VFunc("repo", ci.methods[attr], self_val=b.self_val, env=ci.mod, qn=ci.qn + "." + attr))]
                if ci is None:
                    return [(st, VFunc("external", c + "." + attr, self_val=b.self_val, qn=c + "." + attr))]
            raise Unsupported("super().%s not found" % attr)
        if isinstance(b, VType):
            return self.getattr_type(b, attr, st, cx)
        if isinstance(b, (VStr, VList, VTuple, VDict, VConcDict, VSet, VInt)):
            return [(st, VFunc("builtin", type(b).__name__[1:].lower() + "." + attr, self_val=b, qn="method." + attr))]
        if isinstance(b, VOpaque):
            return [(st, VFunc("builtin", "opaque." + attr, self_val=b, qn="opaque." + attr))]
        if isinstance(b, VExc):
            return [(st, VOpaque("exc." + attr))]
        raise Unsupported("attribute %s of %r" % (attr, b))

    def getattr_type(self, b, attr, st, cx):
        if b.qn is None:
            raise Unsupported("attribute of symbolic class")
        if attr == "__name__":
            return [(st, VStr(b.qn.split(".")[-1]))]
        ci = self.repo.classes().get(b.qn)
        if ci is None:
            return [(st, VFunc("external", b.qn + "." + attr, qn=b.qn + "." + attr))]
        found = self.repo.find_method(b.qn, attr)
        if found:
            c2, fn = found
            return [(st, VFunc("repo", fn, env=c2.mod, qn=c2.qn + "." + attr, self_val=None))]
        fa = self.repo.find_class_attr(b.qn, attr)
        if fa:
            return [(st, self.class_attr(fa[0], attr, cx))]
        raise Unsupported("class attribute %s.%s" % (b.qn, attr))

    def class_attr(self, ci, attr, cx):
        gq = ci.qn + "." + attr
        if gq in self.reg.globals:
            raise Unsupported("class attribute state %s must be read through glob" % gq)
        key = (ci.qn, attr)
        if key not in self.const_cache:
            st0 = State()
            st0.top = self.top0
            c0 = Cx(ci.mod, cls=ci, acc=[], depth=cx.depth + 1)
            r = self.ev(ci.attrs[attr], st0, c0)
            if len(r) != 1 or c0.acc:
                raise Unsupported("class attribute %s.%s is not a constant" % (ci.qn, attr))
            self.const_cache[key] = r[0][1]
        return self.const_cache[key]

    def candidate_classes(self, st, b: VRef):
        "concrete classes the object may have (closed world)"
        if b.cls is None:
            return None
        if b.exact:
            return [self.repo.canonical(b.cls)]
        subs = self.repo.subclasses(b.cls)
        out = []
        for c in subs:
            if c in self.repo.pseudo:
                continue
            ci = self.repo.classes().get(c)
            if ci is not None and any(isinstance(d, ast.Name) and d.id == "abstractmethod"
                                      for m in ci.methods.values() for d in m.decorator_list):
                continue  # abstract classes have no instances
            out.append(c)
        return out

    def getattr_ref(self, b: VRef, attr, st, cx, node=None):
        if attr in ("__module__", "__name__", "__qualname__", "__doc__"):
            return [(st, VStr(z3.FreshConst(z3.StringSort(), "dunder")))]
        if b.cls is not None and not cx.spec:
            # a virtual contract of an ancestor stands for the dynamic dispatch -- unless every class the object may have resolves the
            # method to one and the same override below that ancestor (then the override's own contract is used, statically)
            stop = None
            try:
                cands0 = self.candidate_classes(st, b) or []
                defs = set()
                for c in cands0:
                    fm = self.repo.find_method(c, attr)
                    defs.add(fm[0].qn if fm else None)
                if len(defs) == 1 and None not in defs:
                    stop = defs.pop()
            except Exception:
                stop = None
            for c in self.repo.mro(b.cls):
                vc = self.reg.contracts.get(c + "." + attr)
                if vc is not None and vc.virtual and (vc.only_in is None or cx.fn in vc.only_in or
                                                      any(cx.fn.startswith(x + ".") for x in vc.only_in)):
                    return [(st, VFunc("contract", c + "." + attr, self_val=b, qn=c + "." + attr))]
                if stop is not None and self.repo.canonical(c) == stop:
                    break
        cands = self.candidate_classes(st, b)
        # class-level: properties and methods, grouped by implementation
        groups = {}
        if cands is not None:
            for c in cands:
                found = self.repo.find_method(c, attr)
                ck = None
                if found:
                    ck = ("m", found[0].qn)
                else:
                    fa = self.repo.find_class_attr(c, attr)
                    if fa and self.field_sort(attr, c) is None:
                        ck = ("a", fa[0].qn)
                    elif (c + "." + attr) in self.reg.contracts:
                        ck = ("c", c)
                groups.setdefault(ck, []).append(c)
        else:
            groups[None] = [None]
        if len(groups) > 1:
            # keep only groups that are feasible for this object
            outs = []
            for ck, cs in groups.items():
                cond = z3.Or(*[self.cls_of(b) == self.class_id(c) for c in cs])
                if not self.feasible(st, cond):
                    continue
                s2 = st.copy()
                s2.pc.append(cond)
                # narrow static class
                nb = VRef(b.t, cs[0], exact=True) if len(cs) == 1 else VRef(b.t, self._common(cs), exact=False)
                outs.extend(self._getattr_ref1(nb, attr, ck, cs[0], s2, cx))
            return outs
        ck = list(groups.keys())[0]
        c0 = groups[ck][0]
        return self._getattr_ref1(b, attr, ck, c0, st, cx)

    def _common(self, cs):
        m0 = self.repo.mro(cs[0])
        for c in m0:
            if all(self.repo.is_subclass(x, c) for x in cs):
                return c
        return None

    def _getattr_ref1(self, b, attr, ck, c0, st, cx):
        if ck is not None and ck[0] == "m":
            ci, fn = self.repo.find_method(c0, attr)
            if attr in ci.props:
                return self.call_function(VFunc("repo", fn, self_val=b, env=ci.mod, qn=ci.qn + "." + attr), [], {}, st, cx)
            if attr in ci.static:
                return [(st, VFunc("repo", fn, env=ci.mod, qn=ci.qn + "." + attr))]
            return [(st, VFunc("repo", fn, self_val=b, env=ci.mod, qn=ci.qn + "." + attr))]
        v = self.read_field(st, b, attr)
        if v is not None:
            if attr in DYNAMIC_ATTRS and not cx.spec:
                t, f = self.fork(st, truth_absent(v))
                outs = []
                if t is not None:
                    self.raise_(cx, t, "builtins.AttributeError")
                if f is not None:
                    outs.append((f, v))
                return outs
            return [(st, v)]
        if ck is not None and ck[0] == "a":
            ci, _ = self.repo.find_class_attr(c0, attr)
            return [(st, self.class_attr(ci, attr, cx))]
        if ck is not None and ck[0] == "c":
            return [(st, VFunc("contract", c0 + "." + attr, self_val=b, qn=c0 + "." + attr))]
        # external base-class method (e.g. generic_visit) with an assumed contract
        if b.cls is not None:
            for c in self.repo.mro(b.cls):
                if (c + "." + attr) in self.reg.contracts:
                    return [(st, VFunc("contract", c + "." + attr, self_val=b, qn=c + "." + attr))]
        if b.cls is not None and not cx.spec and self.repo.classes().get(self.repo.canonical(c0 or b.cls)) is not None:
            if self.repo.instance_attr_assigned(self.repo.canonical(c0 or b.cls), attr):
                raise Unsupported("attribute %s is assigned in class %s but is not declared in the heap schema (contracts/schema.py)" % (attr, c0 or b.cls))
            # python semantics: no such attribute on an instance of this class
            self.raise_(cx, st, "builtins.AttributeError")
            return []
        raise Unsupported("attribute %s of object of class %s (no field, method or contract)" % (attr, b.cls))

    # ------------------------------------------------------------ operators
    def ev_UnaryOp(self, e, st, cx):
        outs = []
        for s, v in self.ev(e.operand, st, cx):
            if isinstance(e.op, ast.Not):
                outs.append((s, VBool(z3.Not(truth(v)))))
            elif isinstance(e.op, ast.USub):
                outs.append((s, VInt(-coerce(v, Int).t)))
            elif isinstance(e.op, ast.UAdd):
                outs.append((s, coerce(v, Int)))
            else:
                raise Unsupported("unary op")
        return outs

    def ev_BoolOp(self, e, st, cx):
        is_and = isinstance(e.op, ast.And)
        if cx.spec:
            vals = [self.ev1(v, st, cx) for v in e.values]
            ts = [truth(v) for v in vals]
            return [(st, VBool(z3.And(*ts) if is_and else z3.Or(*ts)))]
        # code mode: short circuit.  Result value is the deciding operand (python semantics).
        outs = []
        work = [(st, 0)]
        while work:
            s, k = work.pop()
            for s2, v in self.ev(e.values[k], s, cx):
                if k == len(e.values) - 1:
                    outs.append((s2, v))
                    continue
                t, f = self.fork(s2, truth(v))
                if is_and:
                    if t is not None:
                        work.append((t, k + 1))
                    if f is not None:
                        outs.append((f, v))
                else:
                    if t is not None:
                        outs.append((t, v))
                    if f is not None:
                        work.append((f, k + 1))
        return outs

    def ev_IfExp(self, e, st, cx):
        if cx.spec:
            c = truth(self.ev1(e.test, st, cx))
            a = self.ev1(e.body, st, cx)
            b = self.ev1(e.orelse, st, cx)
            return [(st, self.ite(c, a, b))]
        outs = []
        for s, c in self.ev(e.test, st, cx):
            t, f = self.fork(s, truth(c))
            if t is not None:
                outs.extend(self.ev(e.body, t, cx))
            if f is not None:
                outs.extend(self.ev(e.orelse, f, cx))
        return outs

    def ite(self, c, a, b):
        c = z3.simplify(c)
        if z3.is_true(c):
            return a
        if z3.is_false(c):
            return b
        if isinstance(a, VNone) and isinstance(b, VNone):
            return a
        if isinstance(a, VNone) or isinstance(b, VNone):
            o = b if isinstance(a, VNone) else a
            if isinstance(o, VRef):
                s = o.sort
            elif isinstance(o, VOpt):
                s = o.sort
            else:
                s = TOpt(o.sort)
            a, b = coerce(a, s), coerce(b, s)
            return mk_val(z3.If(c, a.t, b.t), s)
        if isinstance(a, VOpt) and not isinstance(b, VOpt) and b.sort == a.sort.inner:
            a = mk_val(a.sort.the(a.t), a.sort.inner)
        if isinstance(b, VOpt) and not isinstance(a, VOpt) and a.sort == b.sort.inner:
            b = mk_val(b.sort.the(b.t), b.sort.inner)
        if isinstance(a, VTuple) and isinstance(b, VTuple) and len(a.items) == len(b.items):
            return VTuple([self.ite(c, x, y) for x, y in zip(a.items, b.items)], a.is_list)
        if isinstance(a, VTuple) and isinstance(b, VList):
            a = lift_list(a, b.sort)
        if isinstance(b, VTuple) and isinstance(a, VList):
            b = lift_list(b, a.sort)
        if isinstance(a, VRef) and isinstance(b, VRef):
            cl = a.cls if a.cls == b.cls else (self._common([a.cls, b.cls]) if a.cls and b.cls else None)
            return VRef(z3.If(c, a.t, b.t), cl)
        if a.sort == b.sort and hasattr(a, "t"):
            return mk_val(z3.If(c, a.t, b.t), a.sort)
        if isinstance(a, (VInt, VBool)) and isinstance(b, (VInt, VBool)):
            return VInt(z3.If(c, coerce(a, Int).t, coerce(b, Int).t))
        raise Unsupported("ite between %r and %r" % (a, b))

    def ev_BinOp(self, e, st, cx):
        outs = []
        for s, (a, b) in [(s, vs) for s, vs in self.ev_list([e.left, e.right], st, cx)]:
            outs.append((s, self.binop(e.op, a, b, s, cx)))
        return outs

    def binop(self, op, a, b, st, cx):
        if cx.spec:
            # contracts use an Optional under a `!= None` guard; unwrap it
            a = mk_val(a.sort.the(a.t), a.sort.inner) if isinstance(a, VOpt) else a
            b = mk_val(b.sort.the(b.t), b.sort.inner) if isinstance(b, VOpt) else b
        if isinstance(op, ast.Add):
            if isinstance(a, VStr) and isinstance(b, VStr):
                return VStr(z3.simplify(z3.Concat(a.t, b.t)))
            if isinstance(a, (VList, VTuple)) and isinstance(b, (VList, VTuple)):
                return self.concat(a, b, st)
            return VInt(coerce(a, Int).t + coerce(b, Int).t)
        if isinstance(op, ast.Sub):
            if isinstance(a, VSet) and isinstance(b, VSet):
                r = fresh(a.sort, "setdiff")
                k = z3.FreshConst(a.sort.k.z3(), "dk")
                st.pc.append(z3.ForAll([k], z3.Select(r.sort.mem(r.t), k) == z3.And(z3.Select(a.sort.mem(a.t), k), z3.Not(z3.Select(b.sort.mem(b.t), k)))))
                st.pc.append(z3.And(r.sort.card(r.t) >= 0, r.sort.card(r.t) <= a.sort.card(a.t)))
                return r
            return VInt(coerce(a, Int).t - coerce(b, Int).t)
        if isinstance(op, ast.Mult):
            if isinstance(a, VStr) and isinstance(b, (VInt, VBool)):
                return self.str_repeat(a, coerce(b, Int), st)
            if isinstance(b, VStr) and isinstance(a, (VInt, VBool)):
                return self.str_repeat(b, coerce(a, Int), st)
            return VInt(coerce(a, Int).t * coerce(b, Int).t)
        if isinstance(op, ast.FloorDiv):
            return VInt(coerce(a, Int).t / coerce(b, Int).t)
        if isinstance(op, ast.Mod):
            return VInt(coerce(a, Int).t % coerce(b, Int).t)
        raise Unsupported("binary operator %s" % type(op).__name__)

    def concat(self, a, b, st):
        if isinstance(a, VTuple) and isinstance(b, VTuple):
            return VTuple(a.items + b.items, a.is_list)
        if isinstance(a, VTuple):
            a = lift_list(a, b.sort)
        facts = []
        r = list_concat(a, b, facts)
        st.pc.extend(facts)
        return r

    def str_repeat(self, s: VStr, n: VInt, st):
        nc = n.conc()
        sc = s.conc()
        if nc is not None and sc is not None:
            return VStr(sc * nc)
        if nc is not None:
            t = z3.StringVal("")
            for _ in range(max(nc, 0)):
                t = z3.Concat(t, s.t)
            return VStr(t)
        self.need_repeat_axioms()
        return VStr(F_repeat(s.t, n.t))

    def need_repeat_axioms(self):
        pass

    def ev_Compare(self, e, st, cx):
        outs = []
        for s, vs in self.ev_list([e.left] + list(e.comparators), st, cx):
            conds = []
            for i, op in enumerate(e.ops):
                conds.append(self.compare(op, vs[i], vs[i + 1], s, cx))
            outs.append((s, VBool(z3.And(*conds) if len(conds) > 1 else conds[0])))
        return outs

    def as_type(self, v):
        if isinstance(v, VFunc) and v.kind == "builtin" and v.target in ("str", "int", "float", "bool", "list", "dict", "tuple", "set"):
            return self.vtype("builtins." + v.target)
        return v

    def compare(self, op, a, b, st, cx):
        a, b = self.as_type(a), self.as_type(b)
        if cx.spec and isinstance(op, (ast.Eq, ast.NotEq)):
            # a contract comparing values of different Python kinds is a typo (e.g. a field resolved to another class's sort), never intended
            kinds = (VInt, VBool, VStr, VRef, VList, VTuple, VRec)
            ka = next((k for k in kinds if isinstance(a, k)), None)
            kb = next((k for k in kinds if isinstance(b, k)), None)
            num, seq = (VInt, VBool), (VList, VTuple)
            if ka and kb and ka is not kb and not (ka in num and kb in num) and not (ka in seq and kb in seq):
                raise Unsupported("contract error: compares a %s with a %s (always %s): %r vs %r" % (ka.__name__, kb.__name__, isinstance(op, ast.NotEq), a, b))
        if isinstance(op, ast.Eq):
            return val_eq(a, b)
        if isinstance(op, ast.NotEq):
            return z3.Not(val_eq(a, b))
        if isinstance(op, ast.Is):
            return val_is(a, b)
        if isinstance(op, ast.IsNot):
            return z3.Not(val_is(a, b))
        if isinstance(op, (ast.In, ast.NotIn)):
            c = self.contains(b, a, st, cx)
            return c if isinstance(op, ast.In) else z3.Not(c)
        if isinstance(a, VSet) and isinstance(b, VSet) and isinstance(op, ast.LtE):
            k = z3.FreshConst(a.sort.k.z3(), "sk")
            return z3.ForAll([k], z3.Implies(z3.Select(a.sort.mem(a.t), k), z3.Select(b.sort.mem(b.t), k)))
        x, y = coerce(a, Int).t, coerce(b, Int).t
        if isinstance(op, ast.Lt):
            return x < y
        if isinstance(op, ast.LtE):
            return x <= y
        if isinstance(op, ast.Gt):
            return x > y
        if isinstance(op, ast.GtE):
            return x >= y
        raise Unsupported("comparison %s" % type(op).__name__)

    def contains(self, cont, x, st, cx):
        if isinstance(cont, (VUnion, VRec)) and isinstance(x, VStr):
            cont = self.narrow(st, cont, Str)
        from .sym_builtin import VKeys
        if isinstance(cont, VKeys):
            cont = cont.d
        if isinstance(cont, VRec) and isinstance(cont.sort, TKDict):
            xc = x.conc() if isinstance(x, VStr) else None
            if xc is not None:
                return cont.sort.get(cont.t, "p_" + xc) if xc in cont.sort.keys else z3.BoolVal(False) if False else \
                    (cont.sort.get(cont.t, "p_" + xc) if xc in cont.sort.keys else z3.And(cont.sort.get(cont.t, "other"), cont.sort.get(cont.t, "other_key") == x.t))
            cs = [z3.And(cont.sort.get(cont.t, "p_" + k), x.t == z3.StringVal(k)) for k in cont.sort.keys]
            cs.append(z3.And(cont.sort.get(cont.t, "other"), cont.sort.get(cont.t, "other_key") == x.t))
            return z3.Or(*cs)
        if isinstance(cont, VStr):
            return z3.Contains(cont.t, coerce(x, Str).t)
        if isinstance(cont, VTuple):
            cont = VTuple([self.as_type(i) for i in cont.items], cont.is_list)
            x = self.as_type(x)
        if isinstance(cont, (VList, VTuple)):
            return list_contains(cont, x)
        if isinstance(cont, VIter):
            return list_contains(VTuple(cont.items), x)
        if isinstance(cont, VDict):
            return dict_has(cont, self.narrow(st, x, cont.sort.k))
        if isinstance(cont, VConcDict):
            return z3.Or(*[val_eq(k, x) for k, _ in cont.items]) if cont.items else z3.BoolVal(False)
        if isinstance(cont, VSet):
            return set_has(cont, x)
        raise Unsupported("`in` on %r" % (cont,))

    # ------------------------------------------------------------ subscripts
    def ev_Subscript(self, e, st, cx):
        outs = []
        for s, b in self.ev(e.value, st, cx):
            if isinstance(e.slice, ast.Slice):
                parts = [e.slice.lower, e.slice.upper]
                if e.slice.step is not None:
                    raise Unsupported("slice step")
                work = [(s, [])]
                for p in parts:
                    nxt = []
                    for s2, acc in work:
                        if p is None:
                            nxt.append((s2, acc + [None]))
                        else:
                            for s3, v in self.ev(p, s2, cx):
                                nxt.append((s3, acc + [coerce(v, Int).t]))
                    work = nxt
                for s2, (lo, hi) in work:
                    outs.append((s2, self.slice_(b, lo, hi, s2)))
            else:
                for s2, i in self.ev(e.slice, s, cx):
                    for s3, r in self.index(b, i, s2, cx):
                        # a callable taken out of a table stored in an attribute (self._method_names[name]): calls of it are described by the
                        # assumed contract verif.closure.<attribute>
                        if isinstance(r, VFuncRef) and isinstance(e.value, ast.Attribute) and not getattr(r, "field", None):
                            r.field = e.value.attr
                        outs.append((s3, r))
        return outs

    def slice_(self, b, lo, hi, st):
        if isinstance(b, VStr):
            n = z3.Length(b.t)

            def norm(x, d):
                if x is None:
                    return d
                x = z3.If(x < 0, x + n, x)
                return z3.If(x < 0, 0, z3.If(x > n, n, x))
            l, h = norm(lo, z3.IntVal(0)), norm(hi, n)
            return VStr(z3.simplify(z3.SubString(b.t, l, z3.If(h > l, h - l, 0))))
        if isinstance(b, VTuple):
            cl = None if lo is None else z3.simplify(lo)
            ch = None if hi is None else z3.simplify(hi)
            if (cl is None or z3.is_int_value(cl)) and (ch is None or z3.is_int_value(ch)):
                return VTuple(b.items[(cl.as_long() if cl is not None else None):(ch.as_long() if ch is not None else None)], b.is_list)
            b = lift_list(b)
        if isinstance(b, VList):
            facts = []
            r = list_slice(b, lo, hi, facts)
            st.pc.extend(facts)
            return r
        raise Unsupported("slice of %r" % (b,))

    def index(self, b, i, st, cx):
        if isinstance(b, VOpt):
            if self.feasible(st, b.sort.is_none(b.t)) and not cx.spec:
                t_, f_ = self.fork(st, b.sort.is_none(b.t))
                if t_ is not None:
                    self.raise_(cx, t_, "builtins.TypeError")
                if f_ is None:
                    return []
                st = f_
            b = mk_val(b.sort.the(b.t), b.sort.inner)
        if isinstance(b, VTuple):
            ic = coerce(i, Int).conc() if isinstance(i, (VInt, VBool)) else None
            if ic is not None:
                if -len(b.items) <= ic < len(b.items):
                    return [(st, b.items[ic])]
                if not cx.spec:
                    self.raise_(cx, st, "builtins.IndexError")
                return []
            b = lift_list(b)
        if isinstance(b, VList):
            it = coerce(i, Int).t
            n = b.sort.len(b.t)
            if cx.spec:
                # contract expressions: xs[i] is the mathematical select (literal negative indices only)
                sv = z3.simplify(it)
                if z3.is_int_value(sv) and sv.as_long() < 0:
                    return [(st, list_get(b, n + sv.as_long()))]
                return [(st, list_get(b, it))]
            sv = z3.simplify(it)
            if z3.is_int_value(sv):
                idx = sv if sv.as_long() >= 0 else z3.simplify(n + sv.as_long())
            elif not self.feasible(st, it < 0):
                idx = it
            else:
                idx = z3.simplify(z3.If(it < 0, it + n, it))
            ok, bad = self.fork(st, z3.And(idx >= 0, idx < n))
            if bad is not None:
                self.raise_(cx, bad, "builtins.IndexError")
            return [(ok, list_get(b, idx))] if ok is not None else []
        if isinstance(b, VStr):
            it = coerce(i, Int).t
            n = z3.Length(b.t)
            idx = z3.If(it < 0, it + n, it)
            return [(st, VStr(z3.SubString(b.t, idx, 1)))]
        if isinstance(b, VDict):
            i = self.narrow(st, i, b.sort.k)
            if cx.spec:
                return [(st, dict_get(b, i))]
            ok, bad = self.fork(st, dict_has(b, i))
            if bad is not None:
                self.raise_(cx, bad, "builtins.KeyError")
            return [(ok, dict_get(b, i))] if ok is not None else []
        if isinstance(b, VRec) and isinstance(b.sort, TKDict):
            kc = i.conc() if isinstance(i, VStr) else None
            if kc is None:
                # symbolic key: resolved against the key universe
                outs = []
                rest = st
                for k in b.sort.keys:
                    if rest is None:
                        break
                    t, rest = self.fork(rest, i.t == z3.StringVal(k))
                    if t is not None:
                        outs.extend(self.index(b, VStr(k), t, cx))
                if rest is not None:
                    outs.append((rest, VUnion(z3.FreshConst(PyU.z3(), "otherval"))))
                return outs
            if kc not in b.sort.keys:
                if cx.spec:
                    raise Unsupported("key %s is not in the key universe of %s" % (kc, b.sort))
                self.raise_(cx, st, "builtins.KeyError")
                return []
            v = mk_val(b.sort.get(b.t, "v_" + kc), b.sort.keys[kc])
            if cx.spec:
                return [(st, v)]
            ok, bad = self.fork(st, b.sort.get(b.t, "p_" + kc))
            if bad is not None:
                self.raise_(cx, bad, "builtins.KeyError")
            return [(ok, v)] if ok is not None else []
        if isinstance(b, VMap):
            return [(st, mk_val(z3.Select(b.t, term_of(i, b.sort.k)), b.sort.v))]
        if isinstance(b, VConcDict) and cx.spec:
            if not b.items:
                raise Unsupported("index into empty dict in spec")
            r = b.items[-1][1]
            for k, v in reversed(b.items[:-1]):
                r = self.ite(val_eq(k, i), v, r)
            return [(st, r)]
        if isinstance(b, VConcDict):
            # concrete keys: resolve by equality
            outs = []
            rest = st
            for k, v in b.items:
                if rest is None:
                    break
                t, rest = self.fork(rest, val_eq(k, i))
                if t is not None:
                    outs.append((t, v))
            if rest is not None and not cx.spec:
                self.raise_(cx, rest, "builtins.KeyError")
            return outs
        if isinstance(b, VRef):
            outs = []
            for s2, f in self.getattr_ref(b, "__getitem__", st, cx):
                outs.extend(self.call_function(f, [i], {}, s2, cx))
            return outs
        if isinstance(b, VIter):
            return self.index(VTuple(b.items), i, st, cx)
        raise Unsupported("index of %r" % (b,))

    # ------------------------------------------------------------ str()
    def to_str(self, v, st, cx, repr_=False):
        if isinstance(v, VStr):
            if repr_:
                raise Unsupported("repr of str")
            return [(st, v)]
        if isinstance(v, VInt):
            return [(st, VStr(int_to_str(v.t)))]
        if isinstance(v, VBool):
            return [(st, VStr(z3.If(v.t, z3.StringVal("True"), z3.StringVal("False"))))]
        if isinstance(v, VNone):
            return [(st, VStr("None"))]
        if isinstance(v, VOpt):
            outs = []
            t, f = self.fork(st, v.sort.is_none(v.t))
            if t is not None:
                outs.append((t, VStr("None")))
            if f is not None:
                outs.extend(self.to_str(mk_val(v.sort.the(v.t), v.sort.inner), f, cx))
            return outs
        if isinstance(v, VRec) and v.sort.nm == "PyVal":
            from .sym_call import K_STR, K_INT, K_BOOL, K_FLOAT, K_NONE, F_float_str
            k = v.sort.get(v.t, "kind")
            other = z3.FreshConst(z3.StringSort(), "pyvalstr")
            t = z3.If(k == K_STR, v.sort.get(v.t, "s"),
                      z3.If(k == K_INT, int_to_str(v.sort.get(v.t, "i")),
                            z3.If(k == K_BOOL, z3.If(v.sort.get(v.t, "b"), z3.StringVal("True"), z3.StringVal("False")),
                                  z3.If(k == K_FLOAT, F_float_str(v.sort.get(v.t, "f")),
                                        z3.If(k == K_NONE, z3.StringVal("None"), other)))))
            return [(st, VStr(t))]
        if isinstance(v, (VRef, VRec)):
            outs = []
            for s2, f in self.getattr_(v, "__str__", st, cx):
                for s3, r in self.call_function(f, [], {}, s2, cx):
                    outs.append((s3, coerce(r, Str)))
            return outs
        if isinstance(v, VOpaque):
            return [(st, VStr(z3.FreshConst(z3.StringSort(), "opq")))]
        if isinstance(v, VAbs):
            raise Unsupported("str() of an abstract-sorted value")
        if isinstance(v, (VTuple, VList, VConcDict, VDict, VType, VExc, VFunc)):
            # text of containers / classes only appears in messages; modelled as an unconstrained string
            return [(st, VStr(z3.FreshConst(z3.StringSort(), "txt")))]
        raise Unsupported("str() of %r" % (v,))

    # ------------------------------------------------------------ comprehensions
    def iter_items(self, v, st, cx):
        "concrete-structure iteration: list of item Vals, or None when the iterable is symbolic"
        if isinstance(v, VTuple):
            return v.items
        if isinstance(v, VIter):
            return v.items
        if isinstance(v, VConcDict):
            return [k for k, _ in v.items]
        from .sym_builtin import VKeys, VGuard
        if isinstance(v, VRec) and isinstance(v.sort, TKDict):
            v = VKeys(v)
        if isinstance(v, VKeys):
            d = v.d
            out = []
            for k, so in d.sort.keys.items():
                val = VStr(k) if not v.items else VTuple([VStr(k), mk_val(d.sort.get(d.t, "v_" + k), so)])
                out.append(VGuard(d.sort.get(d.t, "p_" + k), val))
            ok = VStr(d.sort.get(d.t, "other_key"))
            out.append(VGuard(d.sort.get(d.t, "other"), ok if not v.items else VTuple([ok, VUnion(z3.FreshConst(PyU.z3(), "otherval"))])))
            return out
        if isinstance(v, VStr) and v.conc() is not None:
            return [VStr(ch) for ch in v.conc()]
        if isinstance(v, VList):
            n = z3.simplify(v.sort.len(v.t))
            if z3.is_int_value(n):
                return [list_get(v, z3.IntVal(i)) for i in range(n.as_long())]
            if st is not None and not self.feasible(st, v.sort.len(v.t) > 0):
                return []
            return None
        from .sym_builtin import VItems, VValues
        d = v.d if isinstance(v, (VItems, VValues)) else v if isinstance(v, VDict) else None
        if d is not None and st is not None and not self.feasible(st, d.sort.n(d.t) > 0):
            return []
        return None

    def ev_ListComp(self, e, st, cx):
        return self.comprehension(e, st, cx, "list")

    def ev_GeneratorExp(self, e, st, cx):
        return self.comprehension(e, st, cx, "gen")

    def ev_SetComp(self, e, st, cx):
        return self.comprehension(e, st, cx, "list")

    def ev_DictComp(self, e, st, cx):
        return self.comprehension(e, st, cx, "dict")

    def comprehension(self, e, st, cx, kind):
        # unroll over concrete-structure iterables; symbolic ones are handled by map-axioms for pure elements
        gens = e.generators
        results = []  # (state, [items])

        def rec(gi, s, env_over, acc_items):
            if gi == len(gens):
                saved = dict(s.env)
                s.env.update(env_over)
                if kind == "dict":
                    r = []
                    for s2, k in self.ev(e.key, s, cx):
                        for s3, v in self.ev(e.value, s2, cx):
                            r.append((s3, (k, v)))
                else:
                    r = self.ev(e.elt, s, cx)
                out = []
                for s2, v in r:
                    s2.env = {k: x for k, x in s2.env.items() if k not in env_over or k in saved}
                    for k in env_over:
                        if k in saved:
                            s2.env[k] = saved[k]
                    out.append((s2, acc_items + [v]))
                return out
            g = gens[gi]
            saved = dict(s.env)
            s.env.update(env_over)
            its = self.ev(g.iter, s, cx)
            outs = []
            for s2, itv in its:
                s2.env = dict(saved) if s2 is s else {**s2.env}
                for k in env_over:
                    if k in saved:
                        s2.env[k] = saved[k]
                    else:
                        s2.env.pop(k, None)
                items = self.iter_items(itv, s2, cx)
                if items is None:
                    raise SymbolicComprehension(itv)
                from .sym_builtin import VGuard
                work = [(s2, acc_items)]
                for it in items:
                    nxt = []
                    if isinstance(it, VGuard):
                        w2 = []
                        for s3, acc in work:
                            t_, f_ = self.fork(s3, it.cond)
                            if t_ is not None:
                                w2.append((t_, acc))
                            if f_ is not None:
                                nxt.append((f_, acc))
                        work_it, it = w2, it.val
                    else:
                        work_it = work
                    for s3, acc in work_it:
                        eo = dict(env_over)
                        self.bind_target(g.target, it, eo)
                        # filters
                        conds = [(s3, True)]
                        alive = [s3]
                        for f in g.ifs:
                            na = []
                            for s4 in alive:
                                sv = dict(s4.env)
                                s4.env.update(eo)
                                for s5, c in self.ev(f, s4, cx):
                                    s5.env = {k: v for k, v in s5.env.items() if k not in eo}
                                    s5.env.update({k: v for k, v in sv.items() if k in eo})
                                    t, fl = self.fork(s5, truth(c))
                                    if t is not None:
                                        na.append(t)
                                    if fl is not None:
                                        nxt.append((fl, acc))
                            alive = na
                        for s4 in alive:
                            nxt.extend(rec(gi + 1, s4, eo, acc))
                    work = nxt
                outs.extend(work)
            return outs

        try:
            res = rec(0, st, {}, [])
        except SymbolicComprehension as sc:
            return self.symbolic_comprehension(e, st, cx, kind, sc.itv)
        out = []
        for s, items in res:
            if kind == "dict":
                out.append((s, VConcDict(items)))
            elif kind == "gen":
                out.append((s, VIter(items)))
            else:
                out.append((s, VTuple(items, is_list=True)))
        return out

    def filter_axioms(self, out, xs, pred, elt, st):
        """out is the subsequence of xs (mapped through elt) of the elements that satisfy pred, in order:
        src strictly increasing with out[q] == elt(xs[src[q]]) and pred(xs[src[q]]); pos[i] the position of every selected xs[i]"""
        ls, xl = out.sort, xs.sort
        # skolem witnesses as functions of the two lists, shared with the spec predicate is_filtering
        fs = z3.Function("filt_src_%s_%s" % (ls.name(), xl.name()), ls.z3(), xl.z3(), z3.ArraySort(z3.IntSort(), z3.IntSort()))
        fp = z3.Function("filt_pos_%s_%s" % (ls.name(), xl.name()), ls.z3(), xl.z3(), z3.ArraySort(z3.IntSort(), z3.IntSort()))
        src = fs(out.t, xs.t)
        pos = fp(out.t, xs.t)
        q = z3.FreshConst(z3.IntSort(), "fq")
        i = z3.FreshConst(z3.IntSort(), "fi")
        n, m = xl.len(xs.t), ls.len(out.t)
        sq = z3.Select(src, q)
        facts = [m >= 0, m <= n,
                 z3.ForAll([q], z3.Implies(z3.And(q >= 0, q < m), z3.And(sq >= 0, sq < n, pred(list_get(xs, sq)),
                                                                       z3.Select(ls.arr(out.t), q) == term_of(elt(list_get(xs, sq)), ls.elem),
                                                                       z3.Select(pos, sq) == q))),
                 z3.ForAll([q], z3.Implies(z3.And(q >= 1, q < m), z3.Select(src, q - 1) < sq)),
                 z3.ForAll([i], z3.Implies(z3.And(i >= 0, i < n, pred(list_get(xs, i))),
                                           z3.And(z3.Select(pos, i) >= 0, z3.Select(pos, i) < m, z3.Select(src, z3.Select(pos, i)) == i))),
                 canonical_list(out.t, ls)]
        return facts

    def filter_comprehension(self, e, st, cx, kind):
        "[f(x) for x in xs if p(x)] with pure f, p over a symbolic list"
        g = e.generators[0]
        res = self.ev(g.iter, st, cx)
        if len(res) != 1 or not isinstance(res[0][1], VList):
            raise Unsupported("filter comprehension over %r" % (res[0][1] if res else None,))
        s, xs = res[0]

        def apply(expr_list, x):
            s2 = s.copy()
            self.bind_target(g.target, x, s2.env)
            acc = []
            vals = [self.ev1(ex, s2, cx.child(spec=True, acc=acc)) for ex in expr_list]
            if acc or s2.heap != s.heap or not z3.eq(s2.top, s.top):
                raise Unsupported("impure filter comprehension")
            s.pc.extend(s2.pc[len(s.pc):])
            return vals
        probe = apply([e.elt], list_get(xs, z3.FreshConst(z3.IntSort(), "fp")))[0]
        es = Ref if isinstance(probe, VRef) else probe.sort
        proj = None
        if isinstance(es, TUnionRec) and len(g.ifs) == 1 and isinstance(g.ifs[0], ast.Call) and isinstance(g.ifs[0].func, ast.Name) \
                and g.ifs[0].func.id == "isinstance" and isinstance(e.elt, ast.Name) and isinstance(g.target, ast.Name) and e.elt.id == g.target.id:
            tv = self.ev1(g.ifs[0].args[1], s, cx.child(spec=True, acc=[]))
            if isinstance(tv, VType) and tv.qn in es.members:
                proj = tv.qn
                es = es.members[proj]
        ls = TList(es)
        out = fresh(ls, "filt")
        pred = lambda x: z3.And(*[truth(v) for v in apply(g.ifs, x)])
        if proj is not None:
            usort = xs.sort.elem
            elt = lambda x: VRec(usort.get(x.t, usort.member_field(proj)), es)
        else:
            elt = lambda x: apply([e.elt], x)[0]
        s.pc.extend(self.filter_axioms(out, xs, pred, elt, s))
        return [(s, out)]

    def comprehension_as_loop(self, e, st, cx, kind):
        """[f(x) for x in xs] with an element expression that calls contracted code, over a symbolic sequence: executed as
              _compK = []; for x in xs: _compK.append(f(x))
        under the loop contract  loops['compK']  (K = ordinal of the comprehension in the function)"""
        if cx.fn_node is None or cx.contract is None:
            raise Unsupported("impure comprehension over a symbolic sequence outside a function under contract")
        k = _comp_ordinal(cx.fn_node, e)
        key = "comp%s" % k
        if key not in cx.contract.loops:
            raise Unsupported("comprehension #%s at line %d of %s calls contracted code over a symbolic sequence and has no loop contract '%s'"
                              % (k, e.lineno, cx.fn, key))
        g = e.generators[0]
        var = "_" + key
        if kind == "dict":
            src = "%s = {}\nfor _t in _it:\n    %s[0] = 0" % (var, var)
        else:
            src = "%s = []\nfor _t in _it:\n    %s.append(0)" % (var, var)
        body = ast.parse(src).body
        loop = body[1]
        loop.target = g.target
        loop.iter = g.iter
        if kind == "dict":
            loop.body[0].targets[0].slice = e.key
            loop.body[0].value = e.value
        else:
            loop.body[0].value.args[0] = e.elt
        loop._pyvc_key = key
        for n in ast.walk(loop):
            if not hasattr(n, "lineno"):
                n.lineno = e.lineno
                n.col_offset = 0
        ast.fix_missing_locations(loop)
        hint = cx.contract.loops[key].get("sorts", {}).get(var)
        st = st.copy()
        if hint is None:
            raise Unsupported("loop contract %s needs sorts={'%s': TList(...)}" % (key, var))
        from .ops import lift_list
        if kind == "dict":
            from .ops import empty_dict
            if not isinstance(hint, TDict):
                raise Unsupported("loop contract %s: sorts['%s'] must be a TDict" % (key, var))
            st.env[var] = empty_dict(hint)
        else:
            st.env[var] = lift_list(VTuple([], True), hint)
        outs = []
        for s2, oc in self.exec_stmt(loop, st, cx):
            if oc[0] != "normal":
                raise Unsupported("comprehension loop left abnormally")
            v = s2.env.pop(var)
            outs.append((s2, v))
        return outs

    def bind_target(self, tgt, v, env):
        if isinstance(tgt, ast.Name):
            env[tgt.id] = v
        elif isinstance(tgt, (ast.Tuple, ast.List)):
            if isinstance(v, VTuple) and len(v.items) == len(tgt.elts):
                for t, x in zip(tgt.elts, v.items):
                    self.bind_target(t, x, env)
            else:
                raise Unsupported("unpacking %r" % (v,))
        else:
            raise Unsupported("comprehension target")

    def symbolic_comprehension(self, e, st, cx, kind, itv):
        """[f(x) for x in xs] over a symbolic list with a pure element expression and no filter:
        result is a fresh list r with len r == len xs and forall i: r[i] == f(xs[i])"""
        if kind != "dict" and len(e.generators) == 1 and e.generators[0].ifs:
            return self.filter_comprehension(e, st, cx, kind)
        if kind == "dict" and len(e.generators) == 1 and not e.generators[0].ifs and cx.contract is not None and cx.fn_node is not None \
                and ("comp%s" % _comp_ordinal(cx.fn_node, e)) in cx.contract.loops:
            return self.comprehension_as_loop(e, st, cx, kind)   # {k: f(x) for ...}: executed as a loop under its loop contract
        if kind == "dict" or len(e.generators) != 1 or e.generators[0].ifs:
            raise Unsupported("comprehension over a symbolic sequence (filter / nested / dict) at line %d" % e.lineno)
        g = e.generators[0]
        res = self.ev(g.iter, st, cx)
        if len(res) != 1:
            raise Unsupported("forking iterable in comprehension")
        s, xs = res[0]
        try:
            n, elem = self.iter_view(xs, s)
        except Unsupported:
            raise Unsupported("comprehension over %r" % (xs,))
        i = z3.FreshConst(z3.IntSort(), "ci")
        eo = {}
        self.bind_target(g.target, elem(i), eo)
        saved = dict(s.env)
        probe = s.copy()
        probe.env.update(eo)
        acc = []
        try:
            r = self.ev(e.elt, probe, cx.child(spec=True, acc=acc))
        except Unsupported:
            r = []
        pure = (len(r) == 1 and not acc and r[0][0].top is probe.top and r[0][0].heap == s.heap and r[0][0].glob == s.glob
                and z3.eq(r[0][0].top, s.top))
        if not pure:
            return self.comprehension_as_loop(e, st, cx, kind)
        s.pc.extend(r[0][0].pc[len(s.pc):])
        s.env = saved
        v = r[0][1]
        if isinstance(v, VRef):
            ls = TList(Ref)
        else:
            ls = TList(v.sort)
        out = fresh(ls, "cmp")
        s.pc.append(ls.len(out.t) == n)
        s.pc.append(z3.ForAll([i], z3.Implies(z3.And(i >= 0, i < n), z3.Select(ls.arr(out.t), i) == term_of(v, ls.elem))))
        s.pc.append(canonical_list(out.t, ls))
        return [(s, out)]


def _comp_ordinal(fn_node, e):
    cs = [n for n in ast.walk(fn_node) if isinstance(n, (ast.ListComp, ast.GeneratorExp, ast.SetComp, ast.DictComp))]
    cs.sort(key=lambda n: (n.lineno, n.col_offset))
    return cs.index(e) + 1 if e in cs else None


class SymbolicComprehension(Exception):
    def __init__(self, itv):
        self.itv = itv


def truth_absent(v):
    "dynamic attribute absent <=> null"
    if isinstance(v, VRef):
        return v.t == 0
    if isinstance(v, VOpt):
        return v.sort.is_none(v.t)
    return z3.BoolVal(False)


DYNAMIC_ATTRS = {"rep", "scope"}  # attributes set dynamically on ast nodes; absence modelled as null

BUILTIN_NAMES = {"len", "str", "int", "bool", "isinstance", "issubclass", "type", "getattr", "hasattr", "setattr",
                 "all", "any", "zip", "enumerate", "range", "list", "tuple", "dict", "set", "sorted", "reversed",
                 "next", "min", "max", "abs", "print", "super", "cast", "repr", "open", "id", "iter", "eval", "callable"}
BUILTIN_TYPES = set()
SPEC_BUILTINS = {"implies", "iff", "old", "forall", "exists", "isinst", "cls_is", "fresh_obj", "ite", "typename",
                 "field", "len", "str", "all", "any", "range", "int", "bool", "isinstance", "type", "zip", "enumerate",
                 "list", "tuple", "concat", "prefix_of", "seq_eq", "allocated", "unchanged", "strlen", "substr",
                 "startswith", "endswith", "contains", "old_field", "replace", "min", "max", "abs", "index_of", "in_re_ws",
                 "set_subset", "lemma", "dict_keys", "store", "const_map", "any_value", "repo", "is_flattening", "is_filtering", "cls", "u_is_str", "u_is_obj", "u_is_list", "u_list", "u_str", "u_obj", "monotone", "stable_except", "live", "float_text", "frame", "same_class", "is_new", "is_space", "str_repeat", "pigeonhole", "card", "result_is_new", "str_from_int", "at", "keys_within"}
