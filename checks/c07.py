"""C07 static obligation: no function keeps a mutable default-argument object alive across calls (a `{}` / `[]` default that is stored
into an attribute or mutated is one object shared by every call: state of one executor / query would be visible to the next)."""
import ast, json, os
REPO = os.environ.get("PYVC_REPO", "/repo")
results = []
bad = []
n_funcs = 0
for d, _, fs in os.walk(os.path.join(REPO, "func_adl_xAOD")):
    for f in fs:
        if not f.endswith(".py") or os.sep + "template" + os.sep in os.path.join(d, f):
            continue
        path = os.path.join(d, f)
        tree = ast.parse(open(path, encoding="utf-8").read())
        for fn in [n for n in ast.walk(tree) if isinstance(n, (ast.FunctionDef, ast.AsyncFunctionDef))]:
            n_funcs += 1
            a = fn.args
            names = [x.arg for x in a.posonlyargs + a.args]
            pairs = list(zip(names[len(names) - len(a.defaults):], a.defaults)) + [(k.arg, dv) for k, dv in zip(a.kwonlyargs, a.kw_defaults) if dv is not None]
            for pname, dv in pairs:
                mutable = isinstance(dv, (ast.Dict, ast.List, ast.Set)) or (isinstance(dv, ast.Call) and isinstance(dv.func, ast.Name) and dv.func.id in ("dict", "list", "set", "defaultdict"))
                if not mutable:
                    continue
                for n in ast.walk(fn):
                    stored = isinstance(n, ast.Assign) and isinstance(n.value, ast.Name) and n.value.id == pname and any(isinstance(t, ast.Attribute) for t in n.targets)
                    mutated = (isinstance(n, ast.Call) and isinstance(n.func, ast.Attribute) and isinstance(n.func.value, ast.Name) and n.func.value.id == pname
                               and n.func.attr in ("update", "append", "extend", "add", "setdefault", "pop", "clear", "insert"))
                    sub = isinstance(n, (ast.Assign, ast.AugAssign)) and any(isinstance(t, ast.Subscript) and isinstance(t.value, ast.Name) and t.value.id == pname
                                                                              for t in (n.targets if isinstance(n, ast.Assign) else [n.target]))
                    if stored or mutated or sub:
                        bad.append("%s:%d %s(%s=<mutable default>) is %s" % (os.path.relpath(path, REPO), n.lineno, fn.name, pname,
                                                                                "stored into an attribute" if stored else "mutated"))
                        break
# class-level mutable attributes that instances mutate through self: one object shared by all instances
cbad = []
for d, _, fs in os.walk(os.path.join(REPO, "func_adl_xAOD")):
    for f in fs:
        if not f.endswith(".py") or os.sep + "template" + os.sep in os.path.join(d, f):
            continue
        path = os.path.join(d, f)
        tree = ast.parse(open(path, encoding="utf-8").read())
        for cl in [n for n in ast.walk(tree) if isinstance(n, ast.ClassDef)]:
            if any((isinstance(dc, ast.Name) and dc.id == "dataclass") or (isinstance(dc, ast.Call) and getattr(dc.func, "id", "") == "dataclass") for dc in cl.decorator_list):
                continue
            for st in cl.body:
                tgt, val = None, None
                if isinstance(st, ast.Assign) and len(st.targets) == 1 and isinstance(st.targets[0], ast.Name):
                    tgt, val = st.targets[0].id, st.value
                elif isinstance(st, ast.AnnAssign) and isinstance(st.target, ast.Name) and st.value is not None:
                    tgt, val = st.target.id, st.value
                if tgt is None:
                    continue
                mutable = isinstance(val, (ast.Dict, ast.List, ast.Set)) or (isinstance(val, ast.Call) and isinstance(val.func, ast.Name) and val.func.id in ("dict", "list", "set", "defaultdict"))
                if not mutable:
                    continue
                rebound = any(isinstance(n, ast.Assign) and any(isinstance(t, ast.Attribute) and isinstance(t.value, ast.Name) and t.value.id == "self" and t.attr == tgt for t in n.targets)
                              for fn in cl.body if isinstance(fn, ast.FunctionDef) and fn.name == "__init__" for n in ast.walk(fn))
                if not rebound:
                    cbad.append("%s:%d class %s keeps the mutable class attribute %s, shared by all its instances" % (os.path.relpath(path, REPO), st.lineno, cl.name, tgt))
results.append(dict(name="C07/static:no_shared_mutable_class_attribute", kind="static", status="violation" if cbad else "ok", detail="; ".join(cbad), input=cbad or None))
results.append(dict(name="C07/static:no_shared_mutable_default", kind="static", status="violation" if bad else "ok",
                    detail="; ".join(bad), input=bad or None))
results.append(dict(name="C07/static:functions_scanned", kind="static", status="ok" if n_funcs > 100 else "undecided", detail="%d functions" % n_funcs))
print(json.dumps(dict(results=results)))
