# C01 / C10 / C04 -- sequences: a collection is iterated by one new loop over it whose loop variable has the declared element type.
SEQ_CLS = P + "cpp_representation.cpp_sequence"
COLTY = "func_adl_xAOD.common.cpp_types.collection"
LOOPC = "func_adl_xAOD.common.statement.loop"
COLLREP = RefOf(P + "cpp_representation.cpp_collection")
contract(TR + "query_ast_visitor.make_sequence_from_collection", props=["C01", "C10", "C04"],
         params=dict(self=QV, rep=COLLREP, node=Ref), result=RefOf(SEQ_CLS),
         requires=CVC_REQUIRES + [("collection", "rep != None and live(rep) and type_of(rep) != None and live(type_of(rep))"),
                                  ("cursor", "len(cursor(self)) >= 1 and all(b != None and live(b) for b in cursor(self))")],
         modifies=["_statements", "_scope_stack", UVI, "alloc", "_scope"],
         may_raise=["AssertionError"], strict=False,
         raises={"AssertionError": "not isinst(type_of(rep), '" + COLTY + "')"},
         local_sorts=dict(iterator_value=VAL, l_statement=RefOf(LOOPC), collection=VAL),
         ensures=[
             ("new_sequence_iterating_its_own_elements@C01", "result != None and is_new(result) and cls_is(result, '" + SEQ_CLS + "') and "
                                                            "field(result, '_iterator') == final_iterator_value and field(result, '_sequence') == final_iterator_value and "
                                                            "is_new(final_iterator_value) and field(result, '_node') == node"),
             ("iterator_has_the_declared_element_type@C10", "type_of(final_iterator_value) == field(old(type_of(rep)), '_element_type')"),
             ("loop_over_the_collection_is_the_open_block@C01,C04", "final_l_statement != None and is_new(final_l_statement) and cls_is(final_l_statement, '" + LOOPC + "') and "
                                                                "top_block(cursor(self)) == final_l_statement and len(cursor(self)) == len(old(cursor(self))) + 1 and "
                                                                "prefix_of(old(cursor(self)), cursor(self)) and last_stmt(top_block(old(cursor(self)))) == final_l_statement and "
                                                                "field(final_l_statement, '_loop_variable') == final_iterator_value"),
             ("collection_dereferenced_once_if_pointer@C10", "expr_of(field(final_l_statement, '_collection')) == "
                                                             "(('*' + old(expr_of(rep))) if field(old(type_of(rep)), '_p_depth') > 0 else old(expr_of(rep)))"),
             ("element_visible_only_inside_the_loop@C01", "seq_eq(stack_of(scope_of(final_iterator_value)), cursor(self)) and "
                                                          "seq_eq(stack_of(field(result, '_scope', '" + SEQ_CLS + "')), cursor(self))"),
             ("cvc.monotone", "monotone('_statements') and monotone('_variables')"),
             ("cvc.scope_tokens_immutable", "stable_except('_scope_stack', gc_of(self))"),
             ("cvc.counter", "unique_var_index >= old(unique_var_index)"),
         ])
CVARC = P + "cpp_representation.cpp_variable"
GSCOPE = "func_adl_xAOD.common.util_scope.gc_scope"


def agg_iterator(seq):
    "the loop variable of the loop that is aggregated over: the innermost sequence's when the elements are sequences themselves"
    return field(field(seq, "_sequence"), "_iterator") if isinst(field(seq, "_sequence"), "func_adl_xAOD.common.cpp_representation.cpp_sequence") else field(seq, "_iterator")


def plain_text(t):
    "the type object prints itself with terminal.__str__ (the event-collection container classes override it)"
    return cls_is(t, "func_adl_xAOD.common.cpp_types.terminal") or cls_is(t, "func_adl_xAOD.common.cpp_types.collection") or cls_is(t, "func_adl_xAOD.common.cpp_types.terminal_enum_value")


def acc_kind_ok(t):
    return terminal_text(t) == "float" or terminal_text(t) == "double" or terminal_text(t) == "int"


contract(TR + "query_ast_visitor._create_accumulator", props=["C01", "C05", "C09", "C13"],
         params=dict(self=QV, seq=RefOf(SEQ_CLS), acc_type=TERM, initial_value=VAL, outer_scope=GSC),
         requires=CVC_REQUIRES + [("sequence", "seq != None and live(seq) and field(seq, '_sequence') != None and live(field(seq, '_sequence')) and "
                                               "agg_iterator(seq) != None and live(agg_iterator(seq))"),
                                  ("type", "acc_type != None and live(acc_type)"),
                                  ("seed", "initial_value != None and live(initial_value)"),
                                  ("request_point", "outer_scope == None or (live(outer_scope) and len(stack_of(outer_scope)) >= 1 and "
                                                    "all(b != None and live(b) for b in stack_of(outer_scope)))"),
                                  ("loop_variable_scoped_to_its_loop", "scope_of(agg_iterator(seq)) != None and live(scope_of(agg_iterator(seq))) and "
                                                                       "cls_is(scope_of(agg_iterator(seq)), '" + GSCOPE + "') and "
                                                                       "len(stack_of(scope_of(agg_iterator(seq)))) >= 1 and "
                                                                       "all(b != None and live(b) for b in stack_of(scope_of(agg_iterator(seq))))")],
         modifies=["_variables", UVI, "alloc"],
         raises={"ValueError": "plain_text(acc_type) and not acc_kind_ok(acc_type)"}, strict=False,
         raises_only_if={"ValueError": "not (plain_text(acc_type) and acc_kind_ok(acc_type))", "RuntimeError": "len(stack_of(scope_of(agg_iterator(seq)))) == 1"},
         result=TTup([VAL, GSC]),
         ensures=[
             ("accumulator@C01,C05", "result[0] != None and is_new(result[0]) and cls_is(result[0], '" + CVARC + "') and startswith(expr_of(result[0]), 'aggResult') and "
                                     "type_of(result[0]) == acc_type and field(result[0], '_initial_value') == initial_value and scope_of(result[0]) == result[1]"),
             ("declared_outside_the_aggregated_loop@C01,C05",
              "result[1] != None and live(result[1]) and len(stack_of(result[1])) >= 1 and "
              "len(stack_of(result[1])) < len(stack_of(scope_of(agg_iterator(seq)))) and "
              "prefix_of(stack_of(result[1]), stack_of(scope_of(agg_iterator(seq)))) and last_var(top_block(stack_of(result[1]))) == result[0]"),
             ("at_the_request_point_when_the_loops_were_opened_below_it@C01,C05",
              "implies(outer_scope != None and len(stack_of(outer_scope)) < len(stack_of(scope_of(agg_iterator(seq)))) and "
              "prefix_of(stack_of(outer_scope), stack_of(scope_of(agg_iterator(seq)))), seq_eq(stack_of(result[1]), stack_of(outer_scope)))"),
             ("only_declares", "monotone('_variables')"),
             ("cvc.counter", "unique_var_index >= old(unique_var_index)"),
         ])


def last_var(b):
    return field(b, "_variables")[len(field(b, "_variables")) - 1]
contract(TR + "check_accumulator_type", props=["C01"], params=dict(t=TERM), result=Bool,
         requires=["t != None and live(t)"],
         ensures=[("def", "implies(plain_text(t), result == acc_kind_ok(t))")])

SETVAR = "func_adl_xAOD.common.statement.set_var"
BLKS = TList(RefOf(BLOCK))
contract(TR + "query_ast_visitor.visit_call_Aggregate_initial", props=["C01", "C05", "C13"], replay={"accumulator_outlives_every_loop_opened_to_run_the_sequence": "aggregate_accumulator_scope"},
         params=dict(self=QV, node=RefOf("ast.Call"), args=TList(Ref)),
         requires=CVC_REQUIRES + [("source_seed_and_update", "len(field(node, 'args')) == 3 and all(a != None and live(a) for a in field(node, 'args')) and node != None and live(node)"),
                                  ("cursor", "len(cursor(self)) >= 1 and all(b != None and live(b) for b in cursor(self))")],
         modifies=CVC_MODIFIES + ["_target", "_value", "_initial_value", "_expression", "_scope", "_cpp_type", "func", "args", "keywords"],
         may_raise=["Exception"], strict=False,
         local_sorts=dict(seq=RefOf(SEQ_CLS), init_val=VAL, accumulator=VAL, accumulator_scope=GSC, update_lambda=VAL, sv=REP, call=Ref,
                          g_cur=BLKS, g_it=BLKS, g_acc=BLKS, g_at=BLKS, g_vis=BLKS, g_upd=Ref, g_k0=Str, g_k1=Str, g_t0=TERM, g_t1=TERM),
         ghost_init=["g_cur = cursor(self)", "g_at = cursor(self)", "g_it = cursor(self)", "g_acc = cursor(self)", "g_vis = cursor(self)", "g_upd = None", "g_k0 = ''", "g_k1 = ''", "g_t0 = None", "g_t1 = None"],
         ghost={"after:agg_lambda = node.args[2]": ["g_cur = cursor(self)"],
                "after:accumulator, accumulator_scope = self._create_accumulator(": ["g_it = stack_of(scope_of(agg_iterator(seq)))", "g_acc = stack_of(accumulator_scope)"],
                "after:call = ast.Call(": ["g_at = cursor(self)", "g_vis = stack_of(scope_of(sv))"],
                "after:update_lambda = cast(": ["g_k0 = kind_of(init_val)", "g_k1 = kind_of(update_lambda)", "g_t0 = type_of(init_val)", "g_t1 = type_of(update_lambda)"],
                "after:self._gc.add_statement(statement.set_var(accumulator, update_lambda))": ["g_upd = last_stmt(top_block(cursor(self)))"]},
         ensures=CVC_ENSURES + [
             ("accumulator_outlives_every_loop_opened_to_run_the_sequence@C01,C05",
              "implies(len(final_g_cur) < len(final_g_it) and prefix_of(final_g_cur, final_g_it), prefix_of(final_g_acc, final_g_cur))"),
             ("accumulator_is_the_result@C01", "rep_of(node) == final_accumulator and final_accumulator != None and is_new(final_accumulator) and "
                                               "field(final_accumulator, '_initial_value') == final_init_val"),
             ("update_applies_the_lambda_to_accumulator_and_element@C01",
              "is_new(final_call) and len(field(final_call, 'args')) == 2 and field(final_call, 'func') == field(node, 'args')[2] and "
              "final_update_lambda == rep_of(final_call)"),
             ("update_generated_where_the_element_is_visible@C01",
              "implies(isinst(field(final_seq, '_sequence'), '" + CVAL + "') and not is_top(scope_of(field(final_seq, '_sequence'))), seq_eq(final_g_at, final_g_vis))"),
             ("accumulator_assigned_the_updated_value@C01", "final_g_upd != None and is_new(final_g_upd) and cls_is(final_g_upd, '" + SETVAR + "') and "
                                                            "field(final_g_upd, '_target') == final_accumulator and field(final_g_upd, '_value') == final_update_lambda"),
             ("accumulator_wide_enough_for_seed_and_update@C13",
              "implies(final_g_k0 == final_g_k1, type_of(final_accumulator) == final_g_t0) and "
              "implies(final_g_k0 != final_g_k1, (type_of(final_accumulator) == final_g_t0 or type_of(final_accumulator) == final_g_t1) and "
              "rank(tkind(type_of(final_accumulator))) >= rank(final_g_k0) and rank(tkind(type_of(final_accumulator))) >= rank(final_g_k1))"),
             ("result_valid_where_the_accumulator_lives@C01", "seq_eq(cursor(self), stack_of(final_accumulator_scope)) and scope_of(final_accumulator) == final_accumulator_scope"),
         ])
# ---- Range(lo, hi): a vector lo..hi-1 built in its own block; the bounds are computed before that block is entered ------------------
ARB = "func_adl_xAOD.common.statement.arbitrary_statement"
PLAINBLOCK = "func_adl_xAOD.common.statement.block"
contract(TR + "query_ast_visitor.call_Range", props=["C01", "C02"], replay={"bounds_computed_before_the_block_they_initialise_is_entered": "range_bounds_initialised"},
         params=dict(self=QV, node=RefOf("ast.Call"), args=TList(Ref)), result=RefOf(SEQ_CLS),
         requires=CVC_REQUIRES + [("bounds", "all(a != None and live(a) for a in args) and node != None and live(node)"),
                                  ("cursor", "len(cursor(self)) >= 1 and all(b != None and live(b) for b in cursor(self))")],
         modifies=CVC_MODIFIES + ["_initial_value", "_expression", "_scope", "_cpp_type", "_type", "_p_depth", "_is_const", "_tree_type", "_element_type", "_line",
                                  "func", "args", "keywords", "cpp_name", "include_files", "cpp_return_type"],
         may_raise=["Exception"], strict=False, raises={"AssertionError": "len(args) != 2"},
         local_sorts=dict(begin_value=VAL, end_value=VAL, vector_value=VAL, seq=RefOf(SEQ_CLS), g_blk=RefOf(BLOCK), g_n_at_decl=Int, lower_rep=REP, upper_rep=REP),
         ghost_init=["g_blk = None", "g_n_at_decl = 0 - 1"],
         ghost={"after:self._gc.add_statement(statement.block())": ["g_blk = top_block(cursor(self))"],
                "after:self._gc.declare_variable(end_value)": ["g_n_at_decl = len(field(top_block(cursor(self)), '_statements'))"]},
         ensures=CVC_ENSURES + [
             ("own_block@C01,C02", "final_g_blk != None and is_new(final_g_blk) and cls_is(final_g_blk, '" + PLAINBLOCK + "')"),
             ("bounds_are_block_locals_initialised_from_the_arguments@C01,C02",
              "len(field(final_g_blk, '_variables')) >= 3 and field(final_g_blk, '_variables')[0] == final_begin_value and "
              "field(final_g_blk, '_variables')[1] == final_end_value and kind_of(final_begin_value) == 'int' and kind_of(final_end_value) == 'int' and "
              "field(final_begin_value, '_initial_value') == final_lower_rep and field(final_end_value, '_initial_value') == final_upper_rep and "
              "final_lower_rep != None and final_upper_rep != None"),
             ("vector_sized_by_the_bounds@C01", "expr_of(field(field(final_g_blk, '_variables')[2], '_initial_value')) == "
                                                "expr_of(final_end_value) + ' - ' + expr_of(final_begin_value) and "
                                                "expr_of(field(final_g_blk, '_variables')[2]) == expr_of(final_vector_value)"),
             ("bounds_computed_before_the_block_they_initialise_is_entered@C01,C02", "final_g_n_at_decl == 0"),
             ("iterated_as_a_sequence@C01", "result != None and is_new(result) and rep_of(node) == result"),
             ("elements_are_ints@C01", "kind_of(field(result, '_iterator')) == 'int'"),
         ])
