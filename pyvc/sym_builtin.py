"""Builtins and the spec vocabulary."""
from __future__ import annotations
import ast
import z3
from .core import *
from .ops import *
from .sym import *
from .sym_call import PYVAL, K_NONE, K_STR, K_INT, K_BOOL, K_FLOAT, K_OTHER, F_float_str, State_with_top

F_join = {}
F_split = z3.Function("str_split", z3.StringSort(), z3.StringSort(), TList(Str).z3())
F_replace_all = z3.Function("str_replace_all", z3.StringSort(), z3.StringSort(), z3.StringSort(), z3.StringSort())


class BuiltinMixin:
    # ------------------------------------------------------------ quantifiers
    def quantified(self, which, gen, st, cx):
        """all(P for x in xs) / any(...) over symbolic sequences -> quantifier.  Returns None when every iterable has
        concrete structure (then ordinary unrolling applies)."""
        bound = []
        guards = []
        env_over = {}
        s = st.copy()
        symbolic = False
        for g in gen.generators:
            saved = dict(s.env)
            s.env.update(env_over)
            acc = []
            r = self.ev(g.iter, s, cx.child(spec=True, acc=acc))
            s.env = saved
            if len(r) != 1 or acc:
                return None
            itv = r[0][1]
            conc = self.iter_items(itv, s, cx)
            if conc is not None:
                return None if not symbolic else self._unsup("mixed concrete/symbolic generators")
            symbolic = True
            i = z3.FreshConst(z3.IntSort(), "qi")
            bound.append(i)
            if isinstance(itv, VRange):
                # bind the variable itself (no lo + i terms: they defeat E-matching on select indices)
                guards.append(z3.And(i >= itv.lo, i < itv.hi))
                self.bind_target(g.target, VInt(i), env_over)
            else:
                n, elem = self.iter_view(itv, s)
                guards.append(z3.And(i >= 0, i < n))
                self.bind_target(g.target, elem(i), env_over)
            for f in g.ifs:
                saved = dict(s.env)
                s.env.update(env_over)
                guards.append(truth(self.ev1(f, s, cx.child(spec=True, acc=[]))))
                s.env = saved
        if not symbolic:
            return None
        saved = dict(s.env)
        s.env.update(env_over)
        acc = []
        body = truth(self.ev1(gen.elt, s, cx.child(spec=True, acc=acc)))
        if acc:
            raise Unsupported("quantified body may raise")
        s.env = saved
        st.pc.extend(s.pc[len(st.pc):])
        g = z3.And(*guards) if guards else z3.BoolVal(True)
        if which == "all":
            return [(st, VBool(z3.ForAll(bound, z3.Implies(g, body))))]
        return [(st, VBool(z3.Exists(bound, z3.And(g, body))))]

    def _unsup(self, msg):
        raise Unsupported(msg)

    def list_at(self, x, i):
        if isinstance(x, VTuple):
            x = lift_list(x)
        return list_get(x, i)

    def spec_quant(self, which, e, st, cx):
        "forall(Sort, lambda x: body)  /  exists(Sort, lambda x: body); several sorts allowed: forall(Int, Int, lambda i, j: ..)"
        *sorts, lam = e.args
        if not isinstance(lam, ast.Lambda):
            raise Unsupported("forall needs a lambda")
        bound = []
        s = st.copy()
        for sx, a in zip(sorts, lam.args.args):
            so = self.ev1(sx, st, cx)
            if isinstance(so, VOpaque) and isinstance(so.what, Sort):
                so = so.what
            elif isinstance(so, VType):
                so = {"builtins.int": Int, "builtins.str": Str, "builtins.bool": Bool}.get(so.qn, Ref)
            elif isinstance(so, VFunc) and so.kind == "builtin":
                so = {"int": Int, "str": Str, "bool": Bool}[so.target]
            else:
                raise Unsupported("sort in quantifier: %r" % (so,))
            v = fresh(so, "q_" + a.arg)
            bound.append(v.t)
            s.env[a.arg] = v
        body = truth(self.ev1(lam.body, s, cx))
        st.pc.extend(s.pc[len(st.pc):])
        return VBool(z3.ForAll(bound, body) if which == "forall" else z3.Exists(bound, body))

    # ------------------------------------------------------------ builtins
    def call_builtin(self, f, args, kw, st, cx, node=None):
        n = f.target
        if "." in n:
            return self.call_method_builtin(n, f.self_val, args, kw, st, cx, node)
        m = getattr(self, "bi_" + n, None)
        if m is None:
            raise Unsupported("builtin %s" % n)
        return m(args, kw, st, cx, node)

    def bi_len(self, args, kw, st, cx, node):
        v = args[0]
        if isinstance(v, VRec) and isinstance(v.sort, TKDict):
            n = z3.IntVal(0)
            for k in v.sort.keys:
                n = n + z3.If(v.sort.get(v.t, "p_" + k), 1, 0)
            extra = z3.FreshConst(z3.IntSort(), "nother")
            st.pc.append(z3.And(extra >= 0, (extra >= 1) == v.sort.get(v.t, "other")))
            return [(st, VInt(n + extra))]
        if isinstance(v, VUnion):
            v = self.narrow(st, v, TList(Str))
            if isinstance(v, VUnion):
                v = self.narrow(st, v, Str)
        if isinstance(v, VStr):
            return [(st, VInt(z3.Length(v.t)))]
        if isinstance(v, (VList, VTuple)):
            return [(st, VInt(list_len(v)))]
        if isinstance(v, VIter):
            return [(st, VInt(len(v.items)))]
        if isinstance(v, VDict):
            return [(st, VInt(v.sort.n(v.t)))]
        if isinstance(v, VConcDict):
            return [(st, VInt(len(v.items)))]
        if isinstance(v, VSet):
            return [(st, VInt(v.sort.card(v.t)))]
        if isinstance(v, VRef):
            outs = []
            for s2, m in self.getattr_ref(v, "__len__", st, cx):
                outs.extend(self.call_function(m, [], {}, s2, cx))
            return outs
        raise Unsupported("len of %r" % (v,))

    def bi_str(self, args, kw, st, cx, node):
        if not args:
            return [(st, VStr(""))]
        return self.to_str(args[0], st, cx)

    def bi_repr(self, args, kw, st, cx, node):
        return [(st, VStr(z3.FreshConst(z3.StringSort(), "repr")))]

    def bi_int(self, args, kw, st, cx, node):
        v = args[0]
        if isinstance(v, VUnion):
            tg = PyU.tag(v.t)
            outs = []
            num, rest = self.fork(st, z3.Or(tg == 2, tg == 3))
            if num is not None:
                outs.append((num, VInt(z3.If(tg == 2, PyU.i(v.t), z3.If(PyU.b(v.t), 1, 0)))))
            if rest is not None:
                s_, other = self.fork(rest, tg == 1)
                if s_ is not None:
                    outs.extend(self.bi_int([VStr(PyU.s(v.t))], kw, s_, cx, node))
                if other is not None and not cx.spec:
                    self.raise_(cx, other, "builtins.TypeError")
            return outs
        if isinstance(v, (VInt, VBool)):
            return [(st, coerce(v, Int))]
        if isinstance(v, VStr):
            r = z3.StrToInt(v.t)
            ok, bad = self.fork(st, r >= 0)
            if bad is not None and not cx.spec:
                self.raise_(cx, bad, "builtins.ValueError")
            return [(ok, VInt(r))] if ok is not None else []
        if isinstance(v, VRec) and v.sort == PYVAL:
            k = v.sort.get(v.t, "kind")
            outs = []
            ok, bad = self.fork(st, z3.Or(k == K_INT, k == K_BOOL))
            if ok is not None:
                outs.append((ok, VInt(z3.If(k == K_INT, v.sort.get(v.t, "i"), z3.If(v.sort.get(v.t, "b"), 1, 0)))))
            if bad is not None:
                # str/float/other: may succeed with an unconstrained value or raise
                b2 = bad.copy()
                if not cx.spec:
                    self.raise_(cx, b2, "builtins.ValueError")
                outs.append((bad, VInt(z3.FreshConst(z3.IntSort(), "intof"))))
            return outs
        if isinstance(v, VOpaque):
            return [(st, VInt(z3.FreshConst(z3.IntSort(), "intof")))]
        raise Unsupported("int() of %r" % (v,))

    def bi_bool(self, args, kw, st, cx, node):
        return [(st, VBool(truth(args[0])))]

    def bi_abs(self, args, kw, st, cx, node):
        t = coerce(args[0], Int).t
        return [(st, VInt(z3.If(t >= 0, t, -t)))]

    def bi_min(self, args, kw, st, cx, node):
        a, b = coerce(args[0], Int).t, coerce(args[1], Int).t
        return [(st, VInt(z3.If(a <= b, a, b)))]

    def bi_max(self, args, kw, st, cx, node):
        a, b = coerce(args[0], Int).t, coerce(args[1], Int).t
        return [(st, VInt(z3.If(a >= b, a, b)))]

    def bi_print(self, args, kw, st, cx, node):
        return [(st, VNone())]

    def bi_id(self, args, kw, st, cx, node):
        return [(st, VInt(args[0].t))]

    def bi_callable(self, args, kw, st, cx, node):
        return [(st, VBool(isinstance(args[0], (VFunc, VType))))]

    def type_test(self, v, tq, st):
        "z3 Bool: isinstance(v, class tq)"
        if isinstance(v, VRef):
            return self.isinstance_term(v, tq)
        if isinstance(v, VNone):
            return z3.BoolVal(False)
        if isinstance(v, VOpt):
            inner = mk_val(v.sort.the(v.t), v.sort.inner)
            return z3.And(z3.Not(v.sort.is_none(v.t)), self.type_test(inner, tq, st))
        if isinstance(v, VUnion):
            tg = PyU.tag(v.t)
            m = {"builtins.str": 1, "builtins.int": 2, "builtins.bool": 3, "builtins.list": 5}
            if tq in m:
                return z3.Or(tg == m[tq], z3.And(tq == "builtins.int", tg == 3)) if tq == "builtins.int" else tg == m[tq]
            if self.repo.classes().get(tq) is not None or tq.startswith("ast.") or tq in self.repo_external_classes():
                if tq in self.reg.records:
                    return z3.BoolVal(False)
                return z3.And(tg == 4, self.isinstance_term(VRef(PyU.r(v.t)), tq))
            return z3.BoolVal(False)
        if isinstance(v, VRec) and v.sort == PYVAL:
            k = v.sort.get(v.t, "kind")
            m = {"builtins.str": [K_STR], "builtins.int": [K_INT, K_BOOL], "builtins.bool": [K_BOOL], "builtins.float": [K_FLOAT]}
            return z3.Or(*[k == x for x in m.get(tq, [])]) if m.get(tq) else z3.BoolVal(False)
        if isinstance(v, VRec) and isinstance(v.sort, TUnionRec):
            subs = [m for m in v.sort.members if self.repo.is_subclass(m, tq)]
            return z3.Or(*[v.sort.get(v.t, "tag") == self.class_id(m) for m in subs]) if subs else z3.BoolVal(False)
        if isinstance(v, VRec) and isinstance(v.sort, TKDict):
            return z3.BoolVal(tq == "builtins.dict")
        if isinstance(v, VRec):
            if v.sort.cls is None:
                return z3.BoolVal(False)
            return z3.BoolVal(self.repo.is_subclass(v.sort.cls, tq))
        prim = {VStr: "builtins.str", VInt: "builtins.int", VBool: "builtins.bool", VList: "builtins.list",
                VDict: "builtins.dict", VConcDict: "builtins.dict", VSet: "builtins.set"}
        for k, q in prim.items():
            if isinstance(v, k):
                return z3.BoolVal(q == tq or (k is VBool and tq == "builtins.int")
                                  or (tq == "collections.abc.Iterable" and k in (VStr, VList, VDict, VConcDict, VSet)))
        if isinstance(v, VTuple):
            return z3.BoolVal(tq in (("builtins.list",) if v.is_list else ("builtins.tuple",)) or tq == "collections.abc.Iterable")
        if isinstance(v, VOpaque):
            if isinstance(v.what, str) and v.what.startswith("float"):
                return z3.BoolVal(tq == "builtins.float")
            return z3.BoolVal(False)
        if isinstance(v, (VFunc, VType, VExc, VAbs)):
            return z3.BoolVal(False)
        raise Unsupported("isinstance of %r" % (v,))

    def bi_isinstance(self, args, kw, st, cx, node):
        v, t = args
        ts = t.items if isinstance(t, VTuple) else [t]
        ts = [self.as_type(x) for x in ts]
        cs = []
        for x in ts:
            if not isinstance(x, VType) or x.qn is None:
                raise Unsupported("isinstance with non-constant class")
            cs.append(self.type_test(v, x.qn, st))
        return [(st, VBool(z3.simplify(z3.Or(*cs))))]

    def bi_issubclass(self, args, kw, st, cx, node):
        a, b = args
        if isinstance(a, VType) and isinstance(b, VType) and b.qn is not None:
            if a.qn is not None:
                return [(st, VBool(self.repo.is_subclass(a.qn, b.qn)))]
            subs = self.repo.subclasses(b.qn)
            return [(st, VBool(z3.Or(*[a.t == self.class_id(s) for s in subs])))]
        raise Unsupported("issubclass")

    def bi_type(self, args, kw, st, cx, node):
        v = args[0]
        if isinstance(v, VRef):
            if v.exact:
                return [(st, self.vtype(v.cls))]
            return [(st, VType(self.cls_of(v)))]
        if isinstance(v, VUnion):
            tg = PyU.tag(v.t)
            t = z3.If(tg == 1, self.class_id("builtins.str"), z3.If(tg == 2, self.class_id("builtins.int"),
                      z3.If(tg == 3, self.class_id("builtins.bool"), z3.If(tg == 4, z3.Select(self.H_cls, PyU.r(v.t)),
                                                                           self.class_id("builtins.NoneType")))))
            return [(st, VType(t))]
        if isinstance(v, VRec) and v.sort == PYVAL:
            k = v.sort.get(v.t, "kind")
            ids = {K_STR: "builtins.str", K_INT: "builtins.int", K_BOOL: "builtins.bool", K_FLOAT: "builtins.float",
                   K_NONE: "builtins.NoneType"}
            t = z3.IntVal(self.class_id("builtins.object"))
            for kk, q in ids.items():
                t = z3.If(k == kk, self.class_id(q), t)
            return [(st, VType(t))]
        if isinstance(v, VRec) and isinstance(v.sort, TUnionRec):
            return [(st, VType(v.sort.get(v.t, "tag")))]
        if isinstance(v, VRec) and v.sort.cls:
            return [(st, self.vtype(v.sort.cls))]
        prim = {VStr: "builtins.str", VInt: "builtins.int", VBool: "builtins.bool", VList: "builtins.list",
                VConcDict: "builtins.dict", VDict: "builtins.dict"}
        for k, q in prim.items():
            if isinstance(v, k):
                return [(st, self.vtype(q))]
        if isinstance(v, VTuple):
            return [(st, self.vtype("builtins.list" if v.is_list else "builtins.tuple"))]
        raise Unsupported("type() of %r" % (v,))

    def bi_getattr(self, args, kw, st, cx, node):
        obj, name = args[0], args[1]
        nc = name.conc() if isinstance(name, VStr) else None
        if nc is None:
            raise Unsupported("getattr with symbolic attribute name")
        if len(args) == 3:
            # getattr(o, name, default): absent dynamic attribute -> default
            acc = []
            res = self.getattr_(obj, nc, st, cx.child(acc=acc))
            outs = list(res)
            for r in acc:
                if r.exc == "builtins.AttributeError":
                    outs.append((r.st, args[2]))
                else:
                    cx.acc.append(r)
            return outs
        return self.getattr_(obj, nc, st, cx)

    def bi_hasattr(self, args, kw, st, cx, node):
        obj, name = args
        nc = name.conc()
        if isinstance(obj, VRef):
            v = self.read_field(st, obj, nc)
            if v is not None:
                from .sym_expr import truth_absent, DYNAMIC_ATTRS
                if nc in DYNAMIC_ATTRS:
                    return [(st, VBool(z3.Not(truth_absent(v))))]
                return [(st, VBool(True))]
        raise Unsupported("hasattr(%r, %s)" % (obj, nc))

    def bi_setattr(self, args, kw, st, cx, node):
        obj, name, v = args
        nc = name.conc() if isinstance(name, VStr) else None
        if nc is None or not isinstance(obj, VRef):
            raise Unsupported("setattr with symbolic name")
        st = st.copy()
        self.write_field(st, obj, nc, v)
        return [(st, VNone())]

    def bi_all(self, args, kw, st, cx, node):
        items = self.iter_items(args[0], st, cx)
        if items is None and isinstance(args[0], VList) and isinstance(args[0].sort.elem, TBoolS):
            v = args[0]
            i = z3.FreshConst(z3.IntSort(), "ai")
            return [(st, VBool(z3.ForAll([i], z3.Implies(z3.And(i >= 0, i < v.sort.len(v.t)), z3.Select(v.sort.arr(v.t), i)))))]
        if items is None:
            raise Unsupported("all() over symbolic iterable that is not a comprehension")
        return [(st, VBool(z3.And(*[truth(i) for i in items]) if items else z3.BoolVal(True)))]

    def bi_any(self, args, kw, st, cx, node):
        items = self.iter_items(args[0], st, cx)
        if items is None:
            raise Unsupported("any() over symbolic iterable that is not a comprehension")
        return [(st, VBool(z3.Or(*[truth(i) for i in items]) if items else z3.BoolVal(False)))]

    def bi_zip(self, args, kw, st, cx, node):
        lists = [self.iter_items(a, st, cx) for a in args]
        if all(l is not None for l in lists):
            n = min(len(l) for l in lists) if lists else 0
            return [(st, VIter([VTuple([l[i] for l in lists]) for i in range(n)]))]
        parts = []
        for a in args:
            if isinstance(a, VIter):
                a = VTuple(a.items)
            if isinstance(a, VDict):
                a = dict_keys_list(a)
            parts.append(a)
        return [(st, VZip(parts))]

    def bi_enumerate(self, args, kw, st, cx, node):
        items = self.iter_items(args[0], st, cx)
        if items is not None:
            return [(st, VIter([VTuple([VInt(i), x]) for i, x in enumerate(items)]))]
        return [(st, VEnum(args[0]))]

    def bi_range(self, args, kw, st, cx, node):
        ts = [coerce(a, Int).t for a in args]
        lo, hi = (z3.IntVal(0), ts[0]) if len(ts) == 1 else (ts[0], ts[1])
        if len(ts) == 3:
            raise Unsupported("range step")
        l, h = z3.simplify(lo), z3.simplify(hi)
        if z3.is_int_value(l) and z3.is_int_value(h):
            return [(st, VIter([VInt(i) for i in range(l.as_long(), h.as_long())]))]
        return [(st, VRange(lo, hi))]

    def flatten(self, xs: VList, st):
        """assumed contract of itertools.chain(*xs) materialised by list(): the concatenation of the lists in order --
        offsets off[0] = 0, off[k+1] = off[k] + len(xs[k]); result[off[k] + m] == xs[k][m]"""
        self.assumed_contracts.add("itertools.chain(*lists) + list(): concatenation in order (offset characterisation)")
        inner = xs.sort.elem
        r = fresh(inner, "chain")
        off = z3.Function("chain_off_%s" % xs.sort.name(), inner.z3(), xs.sort.z3(), z3.ArraySort(z3.IntSort(), z3.IntSort()))(r.t, xs.t)
        n = xs.sort.len(xs.t)
        k = z3.FreshConst(z3.IntSort(), "ck")
        m = z3.FreshConst(z3.IntSort(), "cm")
        xk = z3.Select(xs.sort.arr(xs.t), k)
        st.pc.append(z3.Select(off, 0) == 0)
        st.pc.append(z3.ForAll([k], z3.Implies(z3.And(k >= 0, k < n), z3.Select(off, k + 1) == z3.Select(off, k) + inner.len(xk))))
        st.pc.append(inner.len(r.t) == z3.Select(off, n))
        st.pc.append(z3.ForAll([k, m], z3.Implies(z3.And(k >= 0, k < n, m >= 0, m < inner.len(xk)),
                                                  z3.Select(inner.arr(r.t), z3.Select(off, k) + m) == z3.Select(inner.arr(xk), m))))
        st.pc.append(canonical_list(r.t, inner))
        st.pc.append(inner.len(r.t) >= 0)
        self.last_chain_offsets = off
        return r

    def bi_is_filtering(self, args, kw, st, cx, node):
        "is_filtering(out, xs, 'qualified.Class'): out is the in-order subsequence of the elements of xs that are instances of the class"
        out, xs, cq = args
        cq = self.repo.canonical(cq.conc())
        ls, xl = out.sort, xs.sort
        fs = z3.Function("filt_src_%s_%s" % (ls.name(), xl.name()), ls.z3(), xl.z3(), z3.ArraySort(z3.IntSort(), z3.IntSort()))
        fp = z3.Function("filt_pos_%s_%s" % (ls.name(), xl.name()), ls.z3(), xl.z3(), z3.ArraySort(z3.IntSort(), z3.IntSort()))
        src = fs(out.t, xs.t)
        pos = fp(out.t, xs.t)
        q = z3.FreshConst(z3.IntSort(), "gq")
        i = z3.FreshConst(z3.IntSort(), "gi")
        n, m = xl.len(xs.t), ls.len(out.t)
        sq = z3.Select(src, q)
        pred = lambda x: self.type_test(x, cq, st)
        eq = lambda o, x: val_eq(o, x)
        body = z3.And(m <= n,
                      z3.ForAll([q], z3.Implies(z3.And(q >= 0, q < m), z3.And(sq >= 0, sq < n, pred(list_get(xs, sq)),
                                                                            eq(list_get(out, q), list_get(xs, sq))))),
                      z3.ForAll([q], z3.Implies(z3.And(q >= 1, q < m), z3.Select(src, q - 1) < sq)),
                      z3.ForAll([i], z3.Implies(z3.And(i >= 0, i < n, pred(list_get(xs, i))),
                                                z3.And(z3.Select(pos, i) >= 0, z3.Select(pos, i) < m, z3.Select(src, z3.Select(pos, i)) == i))))
        return [(st, VBool(body))]

    def bi_is_flattening(self, args, kw, st, cx, node):
        "is_flattening(result, lists): result is the in-order concatenation of the lists (spec counterpart of flatten)"
        r, xs = args
        if isinstance(xs, VTuple):
            xs = lift_list(xs)
        inner = xs.sort.elem
        off = z3.Function("chain_off_%s" % xs.sort.name(), inner.z3(), xs.sort.z3(), z3.ArraySort(z3.IntSort(), z3.IntSort()))(r.t, xs.t)
        n = xs.sort.len(xs.t)
        k = z3.FreshConst(z3.IntSort(), "fk")
        m = z3.FreshConst(z3.IntSort(), "fm")
        xk = z3.Select(xs.sort.arr(xs.t), k)
        body = z3.And(z3.Select(off, 0) == 0,
                      z3.ForAll([k], z3.Implies(z3.And(k >= 0, k < n), z3.Select(off, k + 1) == z3.Select(off, k) + inner.len(xk))),
                      inner.len(r.t) == z3.Select(off, n),
                      z3.ForAll([k, m], z3.Implies(z3.And(k >= 0, k < n, m >= 0, m < inner.len(xk)),
                                                   z3.Select(inner.arr(r.t), z3.Select(off, k) + m) == z3.Select(inner.arr(xk), m))))
        return [(st, VBool(body))]

    def bi_list(self, args, kw, st, cx, node):
        if not args:
            return [(st, VTuple([], True))]
        v = args[0]
        if isinstance(v, VChain):
            return [(st, self.flatten(v.xs, st))]
        items = self.iter_items(v, st, cx)
        if items is not None and not isinstance(v, VList):
            return [(st, VTuple(items, True))]
        if isinstance(v, VList):
            return [(st, v)]
        if isinstance(v, VDict):
            return [(st, dict_keys_list(v))]
        if isinstance(v, VValues):
            return [(st, self.values_list(v.d, st))]
        if isinstance(v, VZip) and all(isinstance(x, (VList, VValues)) for x in v.parts):
            # list(zip(xs, ys)): a fresh list of tuples, as long as the shortest part, z[i] == (xs[i], ys[i])
            parts = [self.values_list(x.d, st) if isinstance(x, VValues) else x for x in v.parts]
            ts = TTup([Ref if isinstance(x.sort.elem, TRefS) else x.sort.elem for x in parts])
            ls = TList(ts)
            r = fresh(ls, "zipped")
            i = z3.FreshConst(z3.IntSort(), "zi")
            n = parts[0].sort.len(parts[0].t)
            for x in parts[1:]:
                n = z3.If(x.sort.len(x.t) < n, x.sort.len(x.t), n)
            st = st.copy()
            st.pc.append(ls.len(r.t) == n)
            elem = VTuple([list_get(x, i) for x in parts])
            st.pc.append(z3.ForAll([i], z3.Implies(z3.And(i >= 0, i < n), z3.Select(ls.arr(r.t), i) == term_of(coerce(elem, ts), ts))))
            st.pc.append(canonical_list(r.t, ls))
            return [(st, r)]
        raise Unsupported("list() of %r" % (v,))

    def bi_tuple(self, args, kw, st, cx, node):
        if not args:
            return [(st, VTuple([]))]
        v = args[0]
        items = self.iter_items(v, st, cx)
        if items is not None and not isinstance(v, VList):
            return [(st, VTuple(items))]
        if isinstance(v, VList):
            return [(st, v)]
        if isinstance(v, VValues):
            return [(st, self.values_list(v.d, st))]
        raise Unsupported("tuple() of %r" % (v,))

    def values_list(self, d: VDict, st):
        ls = TList(d.sort.v)
        r = fresh(ls, "vals")
        i = z3.FreshConst(z3.IntSort(), "vi")
        n = d.sort.n(d.t)
        st.pc.append(ls.len(r.t) == n)
        st.pc.append(z3.ForAll([i], z3.Implies(z3.And(i >= 0, i < n),
                                               z3.Select(ls.arr(r.t), i) == z3.Select(d.sort.val(d.t), z3.Select(d.sort.keys(d.t), i)))))
        st.pc.append(canonical_list(r.t, ls))
        return r

    def bi_dict(self, args, kw, st, cx, node):
        if not args:
            return [(st, VConcDict([(VStr(k), v) for k, v in kw.items()]))]
        v = args[0]
        if isinstance(v, (VConcDict, VDict)) or (isinstance(v, VRec) and isinstance(v.sort, TKDict)):
            return [(st, v)]
        items = self.iter_items(v, st, cx)
        if items is not None:
            return [(st, VConcDict([(i.items[0], i.items[1]) for i in items]))]
        raise Unsupported("dict() of %r" % (v,))

    def bi_set(self, args, kw, st, cx, node):
        if not args:
            return [(st, VEmptySet())]
        v = args[0]
        if isinstance(v, VTuple):
            v = lift_list(v)
        if isinstance(v, VDict):
            v = dict_keys_list(v)
        if isinstance(v, VList):
            ss = TSet(v.sort.elem)
            r = fresh(ss, "setof")
            k = z3.FreshConst(v.sort.elem.z3(), "k")
            i = z3.FreshConst(z3.IntSort(), "i")
            st.pc.append(z3.ForAll([i], z3.Implies(z3.And(i >= 0, i < v.sort.len(v.t)),
                                                   z3.Select(ss.mem(r.t), z3.Select(v.sort.arr(v.t), i)))))
            st.pc.append(z3.ForAll([k], z3.Implies(z3.Select(ss.mem(r.t), k),
                                                   z3.Exists([i], z3.And(i >= 0, i < v.sort.len(v.t), z3.Select(v.sort.arr(v.t), i) == k)))))
            st.pc.append(z3.And(ss.card(r.t) >= 0, ss.card(r.t) <= v.sort.len(v.t)))
            return [(st, r)]
        raise Unsupported("set() of %r" % (v,))

    def bi_sorted(self, args, kw, st, cx, node):
        """assumed contract of builtins.sorted(xs, key=f, reverse=r): the result is a permutation of xs (witnessed by an
        injective index map) ordered by key; stability is not modelled (ties may come in any order)"""
        xs = args[0]
        if isinstance(xs, VTuple):
            xs = lift_list(xs)
        if not isinstance(xs, VList):
            raise Unsupported("sorted of %r" % (xs,))
        keyf = kw.get("key")
        rev = kw.get("reverse", VBool(False))
        self.assumed_contracts.add("builtins.sorted (permutation ordered by key; ties unordered)")
        ls = xs.sort
        ys = fresh(ls, "sorted")
        n = ls.len(xs.t)
        sig = z3.FreshConst(z3.ArraySort(z3.IntSort(), z3.IntSort()), "perm")
        inv = z3.FreshConst(z3.ArraySort(z3.IntSort(), z3.IntSort()), "perminv")
        i = z3.FreshConst(z3.IntSort(), "si")
        j = z3.FreshConst(z3.IntSort(), "sj")
        inr = lambda t: z3.And(t >= 0, t < n)
        st.pc.append(ls.len(ys.t) == n)
        st.pc.append(canonical_list(ys.t, ls))
        st.pc.append(z3.ForAll([i], z3.Implies(inr(i), z3.And(inr(z3.Select(sig, i)), z3.Select(inv, z3.Select(sig, i)) == i,
                                                             z3.Select(ls.arr(ys.t), i) == z3.Select(ls.arr(xs.t), z3.Select(sig, i)))),
                              patterns=[z3.Select(ls.arr(ys.t), i)]))
        st.pc.append(z3.ForAll([j], z3.Implies(inr(j), z3.And(inr(z3.Select(inv, j)), z3.Select(sig, z3.Select(inv, j)) == j,
                                                             z3.Select(ls.arr(ys.t), z3.Select(inv, j)) == z3.Select(ls.arr(xs.t), j))),
                              patterns=[z3.Select(ls.arr(xs.t), j)]))

        def key_of(elem):
            if keyf is None:
                return elem
            s2 = st.copy()
            r = self.call_function(keyf, [elem], {}, s2, cx.child(spec=True, acc=[]))
            if len(r) != 1:
                raise Unsupported("sorted: key function forks")
            st.pc.extend(r[0][0].pc[len(st.pc):])
            return r[0][1]
        ki = coerce(key_of(list_get(ys, i)), Int).t
        kj = coerce(key_of(list_get(ys, j)), Int).t
        rv = truth(rev)
        st.pc.append(z3.ForAll([i, j], z3.Implies(z3.And(inr(i), inr(j), i < j), z3.If(rv, ki >= kj, ki <= kj))))
        return [(st, ys)]

    def bi_reversed(self, args, kw, st, cx, node):
        items = self.iter_items(args[0], st, cx)
        if items is not None:
            return [(st, VIter(list(reversed(items))))]
        v = args[0]
        if isinstance(v, VList):
            # reversed(xs) over a symbolic list: a fresh list r with len r == len xs and r[i] == xs[len-1-i]
            ls = v.sort
            r = fresh(ls, "rev")
            n = ls.len(v.t)
            i = z3.FreshConst(z3.IntSort(), "ri")
            st = st.copy()
            st.pc.append(ls.len(r.t) == n)
            st.pc.append(z3.ForAll([i], z3.Implies(z3.And(i >= 0, i < n), z3.Select(ls.arr(r.t), i) == z3.Select(ls.arr(v.t), n - 1 - i))))
            st.pc.append(canonical_list(r.t, ls))
            return [(st, r)]
        raise Unsupported("reversed over symbolic sequence")

    def bi_next(self, args, kw, st, cx, node):
        items = self.iter_items(args[0], st, cx)
        if items is None and isinstance(args[0], VList) and len(args) > 1:
            # next(iter_over_symbolic_list, default): the first element, or the default when the list is empty
            xs = args[0]
            outs = []
            t, f = self.fork(st, xs.sort.len(xs.t) > 0)
            if t is not None:
                outs.append((t, list_get(xs, z3.IntVal(0))))
            if f is not None:
                outs.append((f, args[1]))
            return outs
        if items is None:
            raise Unsupported("next over symbolic iterator")
        if items:
            return [(st, items[0])]
        if len(args) > 1:
            return [(st, args[1])]
        self.raise_(cx, st, "builtins.StopIteration")
        return []

    def bi_iter(self, args, kw, st, cx, node):
        return [(st, args[0])]

    def bi_eval(self, args, kw, st, cx, node):
        c = self.reg.contracts.get("builtins.eval")
        if c is None:
            raise Unsupported("eval without an assumed contract")
        return self.apply_contract(c, args, kw, st, cx, node)

    def bi_open(self, args, kw, st, cx, node):
        c = self.reg.contracts.get("builtins.open")
        if c is None:
            raise Unsupported("open without an assumed contract")
        return self.apply_contract(c, args, kw, st, cx, node)

    # ---- spec vocabulary
    def bi_implies(self, args, kw, st, cx, node):
        return [(st, VBool(z3.Implies(truth(args[0]), truth(args[1]))))]

    def bi_iff(self, args, kw, st, cx, node):
        return [(st, VBool(truth(args[0]) == truth(args[1])))]

    def bi_ite(self, args, kw, st, cx, node):
        return [(st, self.ite(truth(args[0]), args[1], args[2]))]

    def bi_isinst(self, args, kw, st, cx, node):
        "isinst(obj, 'qualified.Class')"
        if isinstance(args[0], VNone):
            return [(st, VBool(False))]
        return [(st, VBool(self.type_test(args[0], self.repo.canonical(args[1].conc()), st)))]

    def bi_cls_is(self, args, kw, st, cx, node):
        "cls_is(obj, 'qualified.Class'): exact class"
        if isinstance(args[0], VNone):
            return [(st, VBool(False))]
        return [(st, VBool(z3.And(args[0].t != 0, self.cls_of(args[0]) == self.class_id(args[1].conc()))))]

    def bi_repo(self, args, kw, st, cx, node):
        "repo('qualified.name'): the real function / class of /repo (lemma clients call the real code through it)"
        qn = args[0].conc()
        found = self.repo.find(qn)
        if found is None:
            raise Unsupported("repo(%s): not found" % qn)
        kind, nd, mod, ci = found
        if kind == "class":
            return [(st, self.vtype(qn))]
        return [(st, VFunc("repo", nd, env=mod, qn=qn))]

    def bi_cls(self, args, kw, st, cx, node):
        "cls('qualified.Class'): the class object (for isinstance in contract expressions)"
        return [(st, self.vtype(self.repo.canonical(args[0].conc())))]

    def bi_typename(self, args, kw, st, cx, node):
        return [(st, self.vtype(args[0].conc()))]

    def bi_field(self, args, kw, st, cx, node):
        "field(obj, 'name'[, 'Class']) raw heap read (no property/method resolution, no absent check)"
        obj = args[0]
        if isinstance(obj, VNone):
            obj = VRef(z3.IntVal(0), None)  # a field of None: the (unconstrained) cell of the null reference -- nothing can be proved from it
        cls = args[2].conc() if len(args) > 2 else obj.cls
        if len(args) <= 2:
            nm = args[1].conc()
            for (c2, f2) in self.reg.class_fields:
                if f2 == nm and cls is not None and c2 not in self.repo.mro(cls) and self.repo.is_subclass(c2, cls):
                    raise Unsupported("field(%s): ambiguous -- subclass %s of the static class %s declares its own '%s'; name the class" % (nm, c2, cls, nm))
        o = VRef(obj.t, cls)
        v = self.read_field(st, o, args[1].conc())
        if v is None:
            raise Unsupported("field(%s) undeclared" % args[1].conc())
        return [(st, v)]

    def bi_old_field(self, args, kw, st, cx, node):
        if cx.pre is None:
            raise Unsupported("old_field without pre-state")
        return self.bi_field(args, kw, cx.pre, cx, node)

    def bi_allocated(self, args, kw, st, cx, node):
        "allocated(obj): obj existed in the pre-state (or current state when no pre-state)"
        top = cx.pre.top if cx.pre is not None else st.top
        return [(st, VBool(z3.And(args[0].t > 0, args[0].t < top)))]

    def bi_result_is_new(self, args, kw, st, cx, node):
        "result_is_new(obj): allocated during this call"
        if isinstance(args[0], VNone):
            return [(st, VBool(False))]
        return [(st, VBool(z3.And(args[0].t >= cx.pre.top, args[0].t < st.top)))]

    def bi_concat(self, args, kw, st, cx, node):
        r = args[0]
        for a in args[1:]:
            r = self.concat(r, a, st) if isinstance(r, (VList, VTuple)) else VStr(z3.Concat(r.t, a.t))
        return [(st, r)]

    def bi_seq_eq(self, args, kw, st, cx, node):
        return [(st, VBool(list_eq(args[0], args[1])))]

    def bi_keys_within(self, args, kw, st, cx, node):
        "keys_within(d, [k1, ...]): every key of the string-keyed dictionary d is one of the listed (constant) keys"
        d, ks = args
        if not (isinstance(d, VRec) and isinstance(d.sort, TKDict)) or not isinstance(ks, VTuple):
            raise Unsupported("keys_within needs a keyed dictionary and a literal list of keys")
        allowed = []
        for k in ks.items:
            c = k.conc() if isinstance(k, VStr) else None
            if c is None:
                raise Unsupported("keys_within: keys must be string constants")
            allowed.append(c)
        cs = [z3.Not(d.sort.get(d.t, "p_" + k)) for k in d.sort.keys if k not in allowed]
        ok = d.sort.get(d.t, "other_key")
        cs.append(z3.Implies(d.sort.get(d.t, "other"), z3.Or(*[ok == z3.StringVal(a) for a in allowed if a not in d.sort.keys]) if any(a not in d.sort.keys for a in allowed) else z3.BoolVal(False)))
        return [(st, VBool(z3.And(*cs)))]

    def bi_prefix_of(self, args, kw, st, cx, node):
        a, b = args
        if isinstance(a, VStr):
            return [(st, VBool(z3.PrefixOf(a.t, b.t)))]
        if isinstance(a, VTuple):
            a = lift_list(a, b.sort if isinstance(b, VList) else None)
        if isinstance(b, VTuple):
            b = lift_list(b, a.sort)
        i = z3.FreshConst(z3.IntSort(), "pi")
        s = a.sort
        return [(st, VBool(z3.And(s.len(a.t) <= s.len(b.t),
                                  z3.ForAll([i], z3.Implies(z3.And(i >= 0, i < s.len(a.t)),
                                                            z3.Select(s.arr(a.t), i) == z3.Select(s.arr(b.t), i))))))]

    def bi_strlen(self, args, kw, st, cx, node):
        return [(st, VInt(z3.Length(args[0].t)))]

    def bi_substr(self, args, kw, st, cx, node):
        return [(st, VStr(z3.SubString(args[0].t, coerce(args[1], Int).t, coerce(args[2], Int).t)))]

    def bi_at(self, args, kw, st, cx, node):
        return [(st, VStr(z3.SubString(args[0].t, coerce(args[1], Int).t, 1)))]

    def bi_startswith(self, args, kw, st, cx, node):
        return [(st, VBool(z3.PrefixOf(args[1].t, args[0].t)))]

    def bi_endswith(self, args, kw, st, cx, node):
        return [(st, VBool(z3.SuffixOf(args[1].t, args[0].t)))]

    def bi_contains(self, args, kw, st, cx, node):
        return [(st, VBool(self.contains(args[0], args[1], st, cx)))]

    def bi_index_of(self, args, kw, st, cx, node):
        return [(st, VInt(z3.IndexOf(args[0].t, args[1].t, 0)))]

    def bi_replace(self, args, kw, st, cx, node):
        return [(st, VStr(F_replace_all(args[0].t, args[1].t, args[2].t)))]

    def bi_u_is_str(self, args, kw, st, cx, node):
        return [(st, VBool(PyU.tag(args[0].t) == 1))]

    def bi_u_is_obj(self, args, kw, st, cx, node):
        return [(st, VBool(PyU.tag(args[0].t) == 4))]

    def bi_u_is_list(self, args, kw, st, cx, node):
        return [(st, VBool(PyU.tag(args[0].t) == 5))]

    def bi_u_list(self, args, kw, st, cx, node):
        return [(st, VList(PyU.l(args[0].t), TList(Str)))]

    def bi_u_str(self, args, kw, st, cx, node):
        return [(st, VStr(PyU.s(args[0].t)))]

    def bi_u_obj(self, args, kw, st, cx, node):
        cls = args[1].conc() if len(args) > 1 else None
        return [(st, VRef(PyU.r(args[0].t), cls))]

    def bi_float_text(self, args, kw, st, cx, node):
        "str(x) of a python float (assumed contract of CPython: shortest round-trip repr; inf/-inf/nan when not finite)"
        from .sym_call import F_float_str
        return [(st, VStr(F_float_str(args[0].t)))]

    def bi_is_space(self, args, kw, st, cx, node):
        return [(st, VBool(is_ws_char(args[0].t)))]

    def bi_str_repeat(self, args, kw, st, cx, node):
        return [(st, self.str_repeat(args[0], coerce(args[1], Int), st))]

    def bi_in_re_ws(self, args, kw, st, cx, node):
        return [(st, VBool(all_ws(args[0].t)))]

    def bi_str_from_int(self, args, kw, st, cx, node):
        return [(st, VStr(int_to_str(coerce(args[0], Int).t)))]

    def bi_set_subset(self, args, kw, st, cx, node):
        return [(st, VBool(self.compare(ast.LtE(), args[0], args[1], st, cx)))]

    def bi_dict_keys(self, args, kw, st, cx, node):
        return [(st, dict_keys_list(args[0]))]

    def bi_any_value(self, args, kw, st, cx, node):
        "ghost: an arbitrary value of the given sort"
        so = args[0].what
        v = fresh(so, "ghost")
        self.assume_wf(st, v, nullable=True)
        return [(st, v)]

    def bi_store(self, args, kw, st, cx, node):
        m, k, v = args
        return [(st, VMap(z3.Store(m.t, term_of(k, m.sort.k), term_of(v, m.sort.v)), m.sort))]

    def bi_card(self, args, kw, st, cx, node):
        return [(st, VInt(args[0].sort.card(args[0].t)))]

    def bi_pigeonhole(self, args, kw, st, cx, node):
        """trusted lemma (Lean: Finset.eq_of_subset_of_card_le, /verif/lemmas/Sets.lean):
        a finite set s with s subset of keys(d) and |s| >= |keys(d)| equals keys(d)"""
        s_, d = args
        k = z3.FreshConst(d.sort.k.z3(), "ph")
        sub = z3.ForAll([k], z3.Implies(z3.Select(s_.sort.mem(s_.t), k), d.sort.dom(d.t, k)))
        sup = z3.ForAll([k], z3.Implies(d.sort.dom(d.t, k), z3.Select(s_.sort.mem(s_.t), k)))
        self.used_axioms.add("lemma:pigeonhole (Lean-checked, transcribed)")
        return [(st, VBool(z3.Implies(z3.And(sub, s_.sort.card(s_.t) >= d.sort.n(d.t)), sup)))]

    def bi_frame(self, args, kw, st, cx, node):
        """frame('field', obj[, obj2 ...]): the heap field changed at most at the listed objects (w.r.t. the pre-state)"""
        name = args[0].conc()
        objs = args[1:]
        cls = objs[0].cls if objs and isinstance(objs[0], VRef) else None
        s = self.field_sort(name, cls)
        k = self.heap_key(name, cls)
        new = self.heap_arr(st, k, s)
        t = self.heap_arr(cx.pre, k, s)
        for o in objs:
            t = z3.Store(t, o.t, z3.Select(new, o.t))
        return [(st, VBool(new == t))]

    def _field_arrays(self, st, cx, name, cls=None):
        s = self.field_sort(name, cls)
        k = self.heap_key(name, cls)
        return s, self.heap_arr(cx.pre, k, s), self.heap_arr(st, k, s)

    def bi_monotone(self, args, kw, st, cx, node):
        "monotone('field'): for every object that existed before the call the list field only grew (old value is a prefix)"
        name = args[0].conc()
        s, old, new = self._field_arrays(st, cx, name)
        o = z3.FreshConst(z3.IntSort(), "mo")
        i = z3.FreshConst(z3.IntSort(), "mi")
        lo, ln = z3.Select(old, o), z3.Select(new, o)
        return [(st, VBool(z3.ForAll([o], z3.Implies(z3.And(o > 0, o < cx.pre.top),
                                                    z3.And(s.len(lo) <= s.len(ln),
                                                           z3.ForAll([i], z3.Implies(z3.And(i >= 0, i < s.len(lo)),
                                                                                     z3.Select(s.arr(ln), i) == z3.Select(s.arr(lo), i))))))))]

    def bi_stable_except(self, args, kw, st, cx, node):
        "stable_except('field', obj...): objects that existed before the call keep their value of the field, except the listed ones"
        name = args[0].conc()
        s, old, new = self._field_arrays(st, cx, name)
        o = z3.FreshConst(z3.IntSort(), "so")
        ex = [o != a.t for a in args[1:]]
        return [(st, VBool(z3.ForAll([o], z3.Implies(z3.And(o > 0, o < cx.pre.top, *ex), z3.Select(new, o) == z3.Select(old, o)))))]

    def bi_live(self, args, kw, st, cx, node):
        "live(obj): a non-null object allocated in the current state"
        return [(st, VBool(z3.And(args[0].t > 0, args[0].t < st.top)))]

    def bi_same_class(self, args, kw, st, cx, node):
        return [(st, VBool(self.cls_of(args[0]) == self.cls_of(args[1])))]

    def bi_is_new(self, args, kw, st, cx, node):
        "is_new(obj): allocated after the pre-state"
        if isinstance(args[0], VNone):
            return [(st, VBool(False))]
        return [(st, VBool(z3.And(args[0].t >= cx.pre.top, args[0].t < st.top)))]

    def bi_unchanged(self, args, kw, st, cx, node):
        "unchanged('field'[, 'Class']) : the heap field is identical to the pre-state"
        name = args[0].conc()
        cls = args[1].conc() if len(args) > 1 else None
        s = self.field_sort(name, cls)
        k = self.heap_key(name, cls)
        return [(st, VBool(self.heap_arr(st, k, s) == self.heap_arr(cx.pre, k, s)))]

    # ------------------------------------------------------------ methods of builtin types
    def call_method_builtin(self, n, b, args, kw, st, cx, node):
        kind, m = n.split(".", 1)
        if kind == "str":
            return self.str_method(b, m, args, st, cx)
        if kind in ("list", "tuple"):
            if m == "copy":
                return [(st, b)]
            if m == "index":
                raise Unsupported("list.index")
            if m == "count":
                raise Unsupported("list.count")
        if kind in ("dict", "concdict"):
            return self.dict_method(b, m, args, st, cx)
        if kind == "opaque":
            return [(st, VOpaque("call"))]
        raise Unsupported("method %s of %r" % (m, b))

    def str_method(self, b, m, args, st, cx):
        if m == "startswith":
            return [(st, VBool(z3.PrefixOf(coerce(args[0], Str).t, b.t)))]
        if m == "endswith":
            return [(st, VBool(z3.SuffixOf(coerce(args[0], Str).t, b.t)))]
        if m == "strip" and not args:
            bc = b.conc()
            if bc is not None:
                return [(st, VStr(bc.strip()))]
            r = z3.FreshConst(z3.StringSort(), "strip")
            pre = z3.FreshConst(z3.StringSort(), "lws")
            post = z3.FreshConst(z3.StringSort(), "rws")
            n = z3.Length(r)
            st.pc.append(b.t == z3.Concat(pre, r, post))
            st.pc.append(all_ws(pre))
            st.pc.append(all_ws(post))
            st.pc.append(z3.Or(n == 0, z3.And(z3.Not(is_ws_char(z3.SubString(r, 0, 1))),
                                              z3.Not(is_ws_char(z3.SubString(r, n - 1, 1))))))
            # derived facts (theorems of the four defining facts above; they spare the solver an induction on pre/post)
            nb = z3.Length(b.t)
            st.pc.append(z3.Implies(z3.And(nb > 0, z3.Not(is_ws_char(z3.SubString(b.t, 0, 1)))), pre == z3.StringVal("")))
            st.pc.append(z3.Implies(z3.And(nb > 0, z3.Not(is_ws_char(z3.SubString(b.t, nb - 1, 1)))), post == z3.StringVal("")))
            return [(st, VStr(r))]
        if m == "lower":
            bc = b.conc()
            if bc is not None:
                return [(st, VStr(bc.lower()))]
            return [(st, VStr(F_lower(b.t)))]
        if m == "join":
            items = self.iter_items(args[0], st, cx)
            if items is not None:
                t = z3.StringVal("")
                for i, it in enumerate(items):
                    if i:
                        t = z3.Concat(t, b.t)
                    t = z3.Concat(t, coerce(it, Str).t)
                return [(st, VStr(z3.simplify(t)))]
            return [(st, VStr(z3.FreshConst(z3.StringSort(), "join")))]
        if m == "replace":
            bc, a0, a1 = b.conc(), args[0].conc(), args[1].conc()
            if bc is not None and a0 is not None and a1 is not None:
                return [(st, VStr(bc.replace(a0, a1)))]
            return [(st, VStr(F_replace_all(b.t, args[0].t, args[1].t)))]
        if m == "split":
            bc = b.conc()
            if bc is not None and args and args[0].conc() is not None:
                return [(st, VTuple([VStr(x) for x in bc.split(args[0].conc())], True))]
            ls = TList(Str)
            r = VList(F_split(b.t, args[0].t), ls)
            st.pc.append(ls.len(r.t) >= 1)
            return [(st, r)]
        if m == "decode":
            return [(st, b)]
        if m == "format":
            raise Unsupported("str.format")
        raise Unsupported("str.%s" % m)

    def kdict_method(self, b, m, args, st, cx):
        ks = b.sort
        if m == "get":
            k = args[0].conc()
            d = args[1] if len(args) > 1 else VNone()
            if k is None:
                raise Unsupported("dict.get with a symbolic key on a keyed dict")
            if k not in ks.keys:
                return [(st, d)] if True else []
            v = mk_val(ks.get(b.t, "v_" + k), ks.keys[k])
            return [(st, self.ite(ks.get(b.t, "p_" + k), v, d))]
        if m == "keys":
            return [(st, VKeys(b))]
        if m == "items":
            return [(st, VKeys(b, items=True))]
        raise Unsupported("dict.%s on a keyed dict" % m)

    def dict_method(self, b, m, args, st, cx):
        if isinstance(b, VRec):
            return self.kdict_method(b, m, args, st, cx)
        if m == "get":
            k = args[0]
            d = args[1] if len(args) > 1 else VNone()
            if isinstance(b, VConcDict):
                outs = []
                rest = st
                for kk, v in b.items:
                    if rest is None:
                        break
                    t, rest = self.fork(rest, val_eq(kk, k))
                    if t is not None:
                        outs.append((t, v))
                if rest is not None:
                    outs.append((rest, d))
                return outs
            has = dict_has(b, k)
            v = dict_get(b, k)
            if isinstance(d, VNone) and not isinstance(v, VRef):
                so = TOpt(b.sort.v)
                return [(st, VOpt(z3.If(has, so.some(v.t), so.none()), so))]
            return [(st, self.ite(has, v, d))]
        if m == "keys":
            return [(st, b if isinstance(b, VConcDict) else dict_keys_list(b))]
        if m == "values":
            if isinstance(b, VConcDict):
                return [(st, VIter([v for _, v in b.items]))]
            return [(st, VValues(b))]
        if m == "items":
            if isinstance(b, VConcDict):
                return [(st, VIter([VTuple([k, v]) for k, v in b.items]))]
            return [(st, VItems(b))]
        raise Unsupported("dict.%s" % m)


class VChain(Val):
    "itertools.chain(*xs) over a symbolic list of lists"

    def __init__(self, xs):
        self.xs = xs


class VKeys(Val):
    "keys() / items() view of a keyed dict"

    def __init__(self, d, items=False):
        self.d = d
        self.items = items


class VGuard(Val):
    "an element that is only present under a condition (iteration over the keys of a keyed dict)"

    def __init__(self, cond, val):
        self.cond = cond
        self.val = val


class VRange(Val):
    def __init__(self, lo, hi):
        self.lo, self.hi = lo, hi


class VZip(Val):
    def __init__(self, parts):
        self.parts = parts


class VEnum(Val):
    def __init__(self, seq):
        self.seq = seq


class VValues(Val):
    def __init__(self, d):
        self.d = d


class VItems(Val):
    def __init__(self, d):
        self.d = d


class VEmptySet(Val):
    "set() literal before its element sort is known"
