# C18 -- constants in a query denote the same value in the generated code.
def cxx_string_ok(s):
    "a C++ ordinary string literal body: no double quote, no backslash, no line break"
    return not contains(s, '"') and not contains(s, "\\") and not contains(s, "\n") and not contains(s, "\r")


def cxx_int_ok(i):
    "fits the C++ int the translator declares for it"
    return -2147483648 <= i and i <= 2147483647


contract(TR + "query_ast_visitor.visit_Constant", props=["C18", "C13", "C09", "C01"], replay="visit_constant_kinds",
         params=dict(self=QV, node=RefOf("ast.Constant")),
         requires=["gc_of(self) != None"],
         modifies=["rep", "alloc"],
         raises={"ValueError": "not (field(node, 'value').kind == K_STR or field(node, 'value').kind == K_INT or "
                               "field(node, 'value').kind == K_FLOAT or field(node, 'value').kind == K_BOOL) or "
                               "(field(node, 'value').kind == K_STR and not cxx_string_ok(field(node, 'value').s))"},
         ensures=[
             ("string@C18", "implies(field(node, 'value').kind == K_STR, plain_value(rep_of(node), '\"' + field(node, 'value').s + '\"', 'string'))"),
             ("string_representable@C18", "implies(field(node, 'value').kind == K_STR, cxx_string_ok(field(node, 'value').s))"),
             ("int@C18,C13", "implies(field(node, 'value').kind == K_INT, plain_value(rep_of(node), str_from_int(field(node, 'value').i), 'int'))"),
             ("int_representable@C18", "implies(field(node, 'value').kind == K_INT, cxx_int_ok(field(node, 'value').i))"),
             ("float@C18,C13", "implies(field(node, 'value').kind == K_FLOAT, plain_value(rep_of(node), float_text(field(node, 'value').f), 'double'))"),
             ("bool@C18,C13", "implies(field(node, 'value').kind == K_BOOL, plain_value(rep_of(node), 'true' if field(node, 'value').b else 'false', 'bool'))"),
             ("literal_valid_where_it_is_written", "field(rep_of(node), '_scope') != None and seq_eq(field(field(rep_of(node), '_scope'), '_scope_stack'), old(cursor(self)))"),
             ("frame", "frame('rep', node) and unchanged('_statements') and unchanged('_variables') and seq_eq(cursor(self), old(cursor(self)))"),
         ])
