"""Value-level operations shared by the symbolic executor and the contract language."""
from __future__ import annotations
import z3
from .core import *


class Unsupported(Exception):
    "construct outside the verified subset -> the obligation set is undecided, never a violation"


WS_CHARS = None
CLASS_ID_HOOK = [None]  # set by the executor: qualified class name -> class id
CLOSURES = []  # closure table: heap fields of sort Func hold 1-based indices
DEFAULT_AXIOMS = []
DEFAULT_AXIOMS_HAS_WS = [False]


def ws_chars():
    "exact str.isspace() set of the running CPython (generated, not hard-coded)"
    global WS_CHARS
    if WS_CHARS is None:
        WS_CHARS = [chr(c) for c in range(0x110000) if chr(c).isspace()]
    return WS_CHARS


F_ws = z3.Function("is_ws", z3.StringSort(), z3.BoolSort())
_WS_AX = []


def ws_axioms():
    """is_ws is an uninterpreted predicate on one-character strings, constrained by ground facts generated from the
    running CPython: every str.isspace() character is ws; every other ASCII character is not.  Proofs therefore hold
    for any white-space set that agrees with CPython on these characters."""
    if not _WS_AX:
        for c in ws_chars():
            _WS_AX.append(F_ws(z3.StringVal(c)))
        for o in range(128):
            if not chr(o).isspace():
                _WS_AX.append(z3.Not(F_ws(z3.StringVal(chr(o)))))
        _WS_AX.append(z3.Not(F_ws(z3.StringVal(""))))
    return _WS_AX


def is_ws_char(t):
    "t: z3 string of length 1 (or empty)"
    if not DEFAULT_AXIOMS_HAS_WS[0]:
        DEFAULT_AXIOMS_HAS_WS[0] = True
        DEFAULT_AXIOMS.extend(ws_axioms())
    return F_ws(t)


def all_ws(t):
    i = z3.FreshConst(z3.IntSort(), "wsi")
    return z3.ForAll([i], z3.Implies(z3.And(i >= 0, i < z3.Length(t)), is_ws_char(z3.SubString(t, i, 1))))


def sfun(name, *sorts):
    return z3.Function(name, *sorts)


# uninterpreted helpers with defining axioms added on use
F_repeat = z3.RecFunction("str_repeat", z3.StringSort(), z3.IntSort(), z3.StringSort())
_rs, _rn = z3.String("rp_s"), z3.Int("rp_n")
z3.RecAddDefinition(F_repeat, [_rs, _rn], z3.If(_rn <= 0, z3.StringVal(""), z3.Concat(F_repeat(_rs, _rn - 1), _rs)))
F_lower = z3.Function("str_lower", z3.StringSort(), z3.StringSort())


F_float_eq_int = z3.Function("float_eq_int", TAbs("Float").z3(), z3.IntSort(), z3.BoolSort())


def int_to_str(t):
    return z3.If(t >= 0, z3.IntToStr(t), z3.Concat(z3.StringVal("-"), z3.IntToStr(-t)))


def truth(v: Val):
    if isinstance(v, VBool):
        return v.t
    if isinstance(v, VInt):
        return v.t != 0
    if isinstance(v, VStr):
        return z3.Length(v.t) > 0
    if isinstance(v, VNone):
        return z3.BoolVal(False)
    if isinstance(v, VRef):
        return v.t != 0
    if isinstance(v, VList):
        return v.sort.len(v.t) > 0
    if isinstance(v, VTuple):
        return z3.BoolVal(len(v.items) > 0)
    if isinstance(v, VConcDict):
        return z3.BoolVal(len(v.items) > 0)
    if isinstance(v, VDict):
        return v.sort.n(v.t) > 0
    if isinstance(v, VOpt):
        inner = mk_val(v.sort.the(v.t), v.sort.inner)
        return z3.And(z3.Not(v.sort.is_none(v.t)), truth(inner))
    if isinstance(v, VUnion):
        tg = PyU.tag(v.t)
        return z3.If(tg == 1, z3.Length(PyU.s(v.t)) > 0, z3.If(tg == 2, PyU.i(v.t) != 0, z3.If(tg == 3, PyU.b(v.t),
                     z3.If(tg == 5, TList(Str).len(PyU.l(v.t)) > 0, tg == 4))))
    if isinstance(v, VRec) and v.sort.nm == "PyVal":
        k = v.sort.get(v.t, "kind")
        return z3.If(k == 1, z3.Length(v.sort.get(v.t, "s")) > 0,
                     z3.If(k == 2, v.sort.get(v.t, "i") != 0,
                           z3.If(k == 3, v.sort.get(v.t, "b"),
                                 z3.If(k == 0, z3.BoolVal(False), z3.FreshConst(z3.BoolSort(), "truthy")))))
    if isinstance(v, VRec):
        return z3.BoolVal(True)  # dataclass instances without __bool__/__len__ are truthy
    if isinstance(v, (VFunc, VType, VModule)):
        return z3.BoolVal(True)
    raise Unsupported("truth of %r" % (v,))


def lift_list(v: Val, want: TList = None) -> VList:
    "concrete-structure tuple/list -> symbolic list"
    if isinstance(v, VList):
        return v
    if isinstance(v, VTuple):
        if want is None:
            if not v.items:
                raise Unsupported("cannot infer element sort of empty list")
            es = v.items[0].sort
            if isinstance(es, TRefS):
                es = Ref
            want = TList(es)
        arr = const_array(z3.IntSort(), want.elem)
        for i, it in enumerate(v.items):
            arr = z3.Store(arr, i, coerce(it, want.elem).t)
        return VList(want.mk(z3.IntVal(len(v.items)), arr), want)
    raise Unsupported("lift_list of %r" % (v,))


_DARR = {}


def _is_value_default(s: Sort):
    if isinstance(s, (TIntS, TRefS, TTypeS, TBoolS, TStrS, TFuncS)):
        return True
    if isinstance(s, TList):
        return _is_value_default(s.elem)
    if isinstance(s, TRec):
        return all(_is_value_default(fs) for _, fs in s.fields)
    if isinstance(s, TOpt):
        return True
    return False


def const_array(idx_z3sort, elem: Sort, tag="i"):
    "array that holds default_term(elem) everywhere (cvc5 only accepts `as const` with literal values)"
    if _is_value_default(elem):
        return z3.K(idx_z3sort, default_term(elem))
    key = (str(idx_z3sort), elem.name())
    if key not in _DARR:
        a = z3.Const("dfltarr_%s_%s" % (str(idx_z3sort).replace(" ", "_"), elem.name()), z3.ArraySort(idx_z3sort, elem.z3()))
        i = z3.Const("dflt_i_%s" % str(idx_z3sort).replace(" ", "_"), idx_z3sort)
        DEFAULT_AXIOMS.append(z3.ForAll([i], z3.Select(a, i) == default_term(elem)))
        _DARR[key] = a
    return _DARR[key]


def default_term(s: Sort):
    if isinstance(s, (TIntS, TRefS, TTypeS, TFuncS)):
        return z3.IntVal(0)
    if isinstance(s, TBoolS):
        return z3.BoolVal(False)
    if isinstance(s, TStrS):
        return z3.StringVal("")
    if isinstance(s, TList):
        return s.mk(z3.IntVal(0), const_array(z3.IntSort(), s.elem))
    if isinstance(s, TRec):
        return s.mk(*[default_term(fs) for _, fs in s.fields])
    if isinstance(s, TOpt):
        return s.none()
    return z3.Const("dflt_" + s.name(), s.z3())


def canonical_list(t, s: TList):
    "representation invariant: cells outside [0,len) hold the default value, so == on lists is term equality"
    i = z3.FreshConst(z3.IntSort(), "cz")
    return z3.ForAll([i], z3.Or(z3.And(i >= 0, i < s.len(t)), z3.Select(s.arr(t), i) == default_term(s.elem)))


def coerce(v: Val, s: Sort) -> Val:
    "coerce a value to the sort descriptor s (None -> Opt none / null ref, concrete list -> symbolic list ...)"
    if isinstance(s, TRefS):
        if isinstance(v, VNone):
            return VRef(0, s.cls)
        if isinstance(v, VRef):
            return v
        if isinstance(v, VOpt) and isinstance(v.sort.inner, TRefS):
            return VRef(z3.If(v.sort.is_none(v.t), 0, v.sort.the(v.t)), s.cls)
    if isinstance(s, TKDict) and isinstance(v, VConcDict):
        have = {}
        other = False
        for k, x in v.items:
            kc = k.conc() if isinstance(k, VStr) else None
            if kc is None:
                raise Unsupported("dict with a symbolic key coerced to a keyed dict")
            if kc in s.keys:
                have[kc] = x
            else:
                other = True
        ts = []
        for f, fs in s.fields:
            if f.startswith("p_"):
                ts.append(z3.BoolVal(f[2:] in have))
            elif f.startswith("v_"):
                ts.append(term_of(have[f[2:]], fs) if f[2:] in have else default_term(fs))
            elif f == "other":
                ts.append(z3.BoolVal(other))
            else:
                ts.append(z3.StringVal("__other__"))
        return VRec(s.mk(*ts), s)
    if isinstance(s, TAbs) and s.nm == "Any":
        return VAbs(z3.FreshConst(s.z3(), "any"), s)
    if isinstance(s, TUnionRec):
        if isinstance(v, VRec) and v.sort == s:
            return v
        if isinstance(v, VRec) and v.sort.cls in s.members:
            ts = []
            for f, fs in s.fields:
                if f == "tag":
                    ts.append(z3.IntVal(CLASS_ID_HOOK[0](v.sort.cls)))
                elif f == s.member_field(v.sort.cls):
                    ts.append(v.t)
                else:
                    ts.append(default_term(fs))
            return VRec(s.mk(*ts), s)
    if isinstance(s, TUnionS):
        if isinstance(v, VUnion):
            return v
        if isinstance(v, VNone):
            return VUnion(s.mk(0))
        if isinstance(v, VStr):
            return VUnion(s.mk(1, s=v.t))
        if isinstance(v, VBool):
            return VUnion(s.mk(3, b=v.t))
        if isinstance(v, VInt):
            return VUnion(s.mk(2, i=v.t))
        if isinstance(v, VRef):
            return VUnion(s.mk(4, r=v.t), ref_cls=v.cls)
        if isinstance(v, (VList, VTuple)):
            try:
                return VUnion(s.mk(5, l=coerce(v, TList(Str)).t))
            except Unsupported:
                pass
    if isinstance(s, TFuncS):
        if isinstance(v, VFuncRef):
            return v
        if isinstance(v, VNone):
            return VFuncRef(z3.IntVal(0))
        if isinstance(v, VFunc):
            CLOSURES.append(v)
            return VFuncRef(z3.IntVal(len(CLOSURES)))
    if isinstance(s, TOpt):
        if isinstance(v, VNone):
            return VOpt(s.none(), s)
        if isinstance(v, VOpt):
            return v
        return VOpt(s.some(term_of(v, s.inner)), s)
    if isinstance(s, TList):
        if isinstance(v, VList):
            if v.sort == s:
                return v
        if isinstance(v, VTuple):
            return lift_list(v, s)
    if isinstance(s, TDict):
        if isinstance(v, VDict) and v.sort == s:
            return v
        if isinstance(v, VConcDict):
            d = empty_dict(s)
            for k, x in v.items:
                d = dict_set(d, coerce(k, s.k), coerce(x, s.v))
            return d
    if isinstance(s, TTup) and isinstance(v, VTuple) and len(v.items) == len(s.items):
        return VTuple([coerce(a, b) for a, b in zip(v.items, s.items)], v.is_list)
    if isinstance(s, TBoolS) and isinstance(v, VBool):
        return v
    if isinstance(s, TIntS):
        if isinstance(v, VInt):
            return v
        if isinstance(v, VBool):
            return VInt(z3.If(v.t, 1, 0))
    if v.sort is not None and v.sort == s:
        return v
    raise Unsupported("cannot coerce %r to %r" % (v, s))


def tuple_term(v: VTuple, s: TTup):
    return s.z3().constructor(0)(*[term_of(coerce(a, b), b) for a, b in zip(v.items, s.items)])


def term_of(v: Val, s: Sort):
    v = coerce(v, s)
    if isinstance(v, VTuple):
        return tuple_term(v, s)
    return v.t


# ---------------------------------------------------------------- lists


def list_len(v):
    if isinstance(v, VTuple):
        return z3.IntVal(len(v.items))
    if isinstance(v, VList):
        return v.sort.len(v.t)
    raise Unsupported("len of %r" % (v,))


def list_get(v: VList, i):
    return mk_val(z3.Select(v.sort.arr(v.t), i), v.sort.elem)


def list_append(v: VList, x: Val) -> VList:
    s = v.sort
    return VList(s.mk(s.len(v.t) + 1, z3.Store(s.arr(v.t), s.len(v.t), term_of(x, s.elem))), s)


def fresh_list(s: TList, hint="l"):
    return fresh(s, hint)


def list_concat(a: VList, b: VList, facts: list) -> VList:
    s = a.sort
    if isinstance(b, VTuple):
        r = a
        for it in b.items:
            r = list_append(r, it)
        return r
    if a.sort != b.sort:
        raise Unsupported("concat of lists of different sorts %r %r" % (a.sort, b.sort))
    r = fresh_list(s, "cat")
    i = z3.FreshConst(z3.IntSort(), "ci")
    la, lb = s.len(a.t), s.len(b.t)
    facts.append(s.len(r.t) == la + lb)
    facts.append(z3.ForAll([i], z3.Implies(z3.And(i >= 0, i < la), z3.Select(s.arr(r.t), i) == z3.Select(s.arr(a.t), i))))
    facts.append(z3.ForAll([i], z3.Implies(z3.And(i >= la, i < la + lb), z3.Select(s.arr(r.t), i) == z3.Select(s.arr(b.t), i - la))))
    facts.append(canonical_list(r.t, s))
    return r


def list_slice(a: VList, lo, hi, facts: list) -> VList:
    "a[lo:hi] with python clamping; lo/hi are z3 ints or None"
    s = a.sort
    n = s.len(a.t)

    def norm(x, dflt):
        if x is None:
            return dflt
        x = z3.If(x < 0, x + n, x)
        return z3.If(x < 0, 0, z3.If(x > n, n, x))

    lo2 = norm(lo, z3.IntVal(0))
    hi2 = norm(hi, n)
    ln = z3.If(hi2 > lo2, hi2 - lo2, 0)
    if lo is None and hi is None:
        return a
    r = fresh_list(s, "slc")
    i = z3.FreshConst(z3.IntSort(), "si")
    facts.append(s.len(r.t) == ln)
    facts.append(z3.ForAll([i], z3.Implies(z3.And(i >= 0, i < ln), z3.Select(s.arr(r.t), i) == z3.Select(s.arr(a.t), i + lo2))))
    facts.append(canonical_list(r.t, s))
    return r


def list_eq(a, b):
    if isinstance(a, VTuple) and isinstance(b, VTuple):
        if len(a.items) != len(b.items):
            return z3.BoolVal(False)
        return z3.And(*[val_eq(x, y) for x, y in zip(a.items, b.items)]) if a.items else z3.BoolVal(True)
    if isinstance(a, VTuple):
        a = lift_list(a, b.sort)
    if isinstance(b, VTuple):
        b = lift_list(b, a.sort)
    if a.sort != b.sort:
        return z3.BoolVal(False)
    return a.t == b.t  # lists are kept canonical (see canonical_list)


def list_contains(v, x):
    if isinstance(v, VTuple):
        return z3.Or(*[val_eq(it, x) for it in v.items]) if v.items else z3.BoolVal(False)
    s = v.sort
    i = z3.FreshConst(z3.IntSort(), "mi")
    e = mk_val(z3.Select(s.arr(v.t), i), s.elem)
    return z3.Exists([i], z3.And(i >= 0, i < s.len(v.t), val_eq(e, x)))


# ---------------------------------------------------------------- equality


def val_eq(a: Val, b: Val):
    "python == as a z3 Bool"
    if (isinstance(a, VRec) and a.sort.nm == "PyVal") != (isinstance(b, VRec) and b.sort.nm == "PyVal"):
        if not (isinstance(a, VRec) and a.sort.nm == "PyVal"):
            a, b = b, a
        k = a.sort.get(a.t, "kind")
        if isinstance(b, VNone):
            return k == 0
        if isinstance(b, VStr):
            return z3.And(k == 1, a.sort.get(a.t, "s") == b.t)
        if isinstance(b, (VInt, VBool)):
            bi = coerce(b, Int).t
            return z3.Or(z3.And(k == 2, a.sort.get(a.t, "i") == bi), z3.And(k == 3, z3.If(a.sort.get(a.t, "b"), 1, 0) == bi),
                         z3.And(k == 4, F_float_eq_int(a.sort.get(a.t, "f"), bi)))
        return z3.BoolVal(False)
    if isinstance(a, VUnion) or isinstance(b, VUnion):
        if not isinstance(a, VUnion):
            a, b = b, a
        tg = PyU.tag(a.t)
        if isinstance(b, VUnion):
            return a.t == b.t
        if isinstance(b, VNone):
            return tg == 0
        if isinstance(b, VStr):
            return z3.And(tg == 1, PyU.s(a.t) == b.t)
        if isinstance(b, VBool):
            return z3.And(tg == 3, PyU.b(a.t) == b.t)
        if isinstance(b, VInt):
            return z3.And(tg == 2, PyU.i(a.t) == b.t)
        if isinstance(b, VRef):
            return z3.And(tg == 4, PyU.r(a.t) == b.t)
        return z3.BoolVal(False)
    if isinstance(a, VNone) or isinstance(b, VNone):
        return val_is(a, b)
    if isinstance(a, VBool) and isinstance(b, VBool):
        return a.t == b.t
    if isinstance(a, (VInt, VBool)) and isinstance(b, (VInt, VBool)):
        return coerce(a, Int).t == coerce(b, Int).t
    if isinstance(a, VStr) and isinstance(b, VStr):
        return a.t == b.t
    if isinstance(a, VAbs) and isinstance(b, VAbs):
        return a.t == b.t
    if isinstance(a, VRef) and isinstance(b, VRef):
        return a.t == b.t
    if isinstance(a, VType) and isinstance(b, VType):
        return a.t == b.t
    if isinstance(a, (VList, VTuple)) and isinstance(b, (VList, VTuple)):
        return list_eq(a, b)
    if isinstance(a, VRec) and isinstance(b, VRec) and isinstance(a.sort, TUnionRec) != isinstance(b.sort, TUnionRec):
        if not isinstance(a.sort, TUnionRec):
            a, b = b, a
        if b.sort.cls not in a.sort.members:
            return z3.BoolVal(False)
        return z3.And(a.sort.get(a.t, "tag") == CLASS_ID_HOOK[0](b.sort.cls), a.sort.get(a.t, a.sort.member_field(b.sort.cls)) == b.t)
    if isinstance(a, VRec) and isinstance(b, VRec):
        if a.sort != b.sort:
            return z3.BoolVal(False)
        return a.t == b.t  # records of canonical values: dataclass == is term equality
    if isinstance(a, VOpt) and isinstance(b, VOpt) and a.sort == b.sort:
        ia, ib = a.sort.is_none(a.t), b.sort.is_none(b.t)
        return z3.Or(z3.And(ia, ib), z3.And(z3.Not(ia), z3.Not(ib),
                                            val_eq(mk_val(a.sort.the(a.t), a.sort.inner), mk_val(b.sort.the(b.t), b.sort.inner))))
    if isinstance(a, VOpt):
        return z3.And(z3.Not(a.sort.is_none(a.t)), val_eq(mk_val(a.sort.the(a.t), a.sort.inner), b))
    if isinstance(b, VOpt):
        return val_eq(b, a)
    if isinstance(a, VDict) and isinstance(b, VDict) and a.sort == b.sort:
        return a.t == b.t
    if isinstance(a, VSet) and isinstance(b, VSet) and a.sort == b.sort:
        return a.sort.mem(a.t) == b.sort.mem(b.t)
    # different python types never compare equal (str vs int, ...)
    kinds = (VInt, VBool, VStr, VRef, VList, VTuple, VRec)
    if isinstance(a, kinds) and isinstance(b, kinds):
        return z3.BoolVal(False)
    raise Unsupported("== between %r and %r" % (a, b))


def val_is(a: Val, b: Val):
    if isinstance(a, VNone) and isinstance(b, VNone):
        return z3.BoolVal(True)
    if isinstance(b, VNone):
        a, b = b, a
    if isinstance(a, VNone):
        if isinstance(b, VUnion):
            return PyU.tag(b.t) == 0
        if isinstance(b, VRef):
            return b.t == 0
        if isinstance(b, VOpt):
            return b.sort.is_none(b.t)
        return z3.BoolVal(False)
    if isinstance(a, VRef) and isinstance(b, VRef):
        return a.t == b.t
    if isinstance(a, VType) and isinstance(b, VType):
        return a.t == b.t
    if isinstance(a, VBool) and isinstance(b, VBool):
        return a.t == b.t
    raise Unsupported("`is` between %r and %r" % (a, b))


# ---------------------------------------------------------------- dicts / sets


def empty_dict(s: TDict) -> VDict:
    return VDict(s.mk(z3.IntVal(0), const_array(z3.IntSort(), s.k), z3.K(s.k.z3(), z3.IntVal(-1)),
                      const_array(s.k.z3(), s.v)), s)


def dict_has(d: VDict, k: Val):
    return z3.simplify(d.sort.dom(d.t, term_of(k, d.sort.k)))


def dict_get(d: VDict, k: Val) -> Val:
    return mk_val(z3.simplify(z3.Select(d.sort.val(d.t), term_of(k, d.sort.k))), d.sort.v)


def dict_set(d: VDict, k: Val, v: Val) -> VDict:
    s = d.sort
    kt = term_of(k, s.k)
    vt = term_of(v, s.v)
    has = z3.simplify(s.dom(d.t, kt))
    n = s.n(d.t)
    if z3.is_false(has):
        return VDict(s.mk(z3.simplify(n + 1), z3.Store(s.keys(d.t), n, kt), z3.Store(s.idx(d.t), kt, n), z3.Store(s.val(d.t), kt, vt)), s)
    if z3.is_true(has):
        return VDict(s.mk(n, s.keys(d.t), s.idx(d.t), z3.Store(s.val(d.t), kt, vt)), s)
    return VDict(s.mk(z3.If(has, n, n + 1),
                      z3.If(has, s.keys(d.t), z3.Store(s.keys(d.t), n, kt)),
                      z3.If(has, s.idx(d.t), z3.Store(s.idx(d.t), kt, n)),
                      z3.Store(s.val(d.t), kt, vt)), s)


def dict_keys_list(d: VDict) -> VList:
    ls = TList(d.sort.k)
    return VList(ls.mk(d.sort.n(d.t), d.sort.keys(d.t)), ls)


def empty_set(s: TSet) -> VSet:
    return VSet(s.mk(z3.K(s.k.z3(), z3.BoolVal(False)), z3.IntVal(0)), s)


def set_has(v: VSet, k: Val):
    return z3.Select(v.sort.mem(v.t), term_of(k, v.sort.k))


def set_add(v: VSet, k: Val) -> VSet:
    s = v.sort
    kt = term_of(k, s.k)
    return VSet(s.mk(z3.Store(s.mem(v.t), kt, z3.BoolVal(True)),
                     z3.If(z3.Select(s.mem(v.t), kt), s.card(v.t), s.card(v.t) + 1)), s)
