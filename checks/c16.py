"""C16 bounded stand-in (bash: no contract verifier; a hand-written bash semantics would be a model -- see DESIGN).
The contract of each backend's runner.sh, written from the property statement, is checked by executing the REAL script as
the real executor renders it (write_cpp_files) inside a private mount namespace + chroot whose /results, /home/atlas, /opt/cms,
/xaod_calibration_cache, /scripts, /work exist only there, with stub build/run tools on PATH that log their calls, produce a
job output tagged with the run id and the input list they saw, and fail on demand.
Bound: every subset of {-c, -r, -d F, -o D} (with a prior build where -r needs one), an unknown flag, a stray argument; every
single-step failure (each tool, each sourced environment file, the final copy) for the full run and for the -r run; the
invocation sequences  [-c, -r -d A -o O1, -r -d B -o O2]  and  [full, -r -d B -o O2];  3 scripts (ATLAS r21, CMS r5, CMS r7)."""
import itertools
import json
import os
import shutil
import subprocess
import sys
import tempfile

HERE = os.path.dirname(os.path.abspath(__file__))
sys.path.insert(0, os.path.dirname(HERE))
import replay_drivers as RD  # noqa: E402

results = []
TIER = os.environ.get("VERIF_TIER", "quick")

STUB = r'''#!/bin/bash
name=$(basename "$0")
echo "$name|$PWD|$*" >> /log
case ",$FAIL," in *",$name,"*) echo "stub $name: failing on demand" >&2; exit 1;; esac
case "$name" in
  mkedanlzr) mkdir -p "$1/src" "$1/plugins" "$1/python" ;;
  python)
    sub=bogus
    for a in "$@"; do case "$a" in --submission-dir=*) sub=${a#*=} ;; esac; done
    mkdir -p "$sub/data-ANALYSIS"
    { echo "RUN $RUNID"; cat filelist.txt; } > "$sub/data-ANALYSIS/ANALYSIS.root" ;;
  cmsRun) { echo "RUN $RUNID"; cat filelist.txt; } > "$CMS_OUTPUT_FILE" ;;
  root)
    arg="${@: -1}"
    src=$(printf '%s' "$arg" | sed -E 's/.*\("([^"]*)","([^"]*)"\)$/\1/')
    dst=$(printf '%s' "$arg" | sed -E 's/.*\("([^"]*)","([^"]*)"\)$/\2/')
    cp "$src" "$dst" || exit 1 ;;
esac
exit 0
'''
TOOLS = {"atlas": ["cmake", "make", "python", "sudo"], "cms": ["mkedanlzr", "scram", "cmsRun", "root"]}
ALL_STUBS = ["cmake", "make", "python", "sudo", "mkedanlzr", "scram", "cmsRun", "root", "xrdcp"]


class Box:
    "one chroot tree; `fresh_work()` empties /work and the outputs so that invocation sequences share a build when wanted"

    def __init__(self, backend, scratch):
        self.backend = backend
        self.root = tempfile.mkdtemp(prefix="c16_%s_" % backend, dir=scratch)
        for d in ("usr", "etc", "dev", "tmp", "stubs", "work", "scripts", "results", "home/atlas", "opt/cms", "platform", "o1", "o2", "xaod_calibration_cache"):
            os.makedirs(os.path.join(self.root, d))
        for ln in ("bin", "lib", "lib64", "sbin"):
            if os.path.islink("/" + ln):
                os.symlink(os.readlink("/" + ln), os.path.join(self.root, ln))
        stub = os.path.join(self.root, "stubs", "_stub")
        with open(stub, "w") as f:
            f.write(STUB)
        os.chmod(stub, 0o755)
        for t in ALL_STUBS:
            os.symlink("_stub", os.path.join(self.root, "stubs", t))
        key = {"atlas": "atlas", "cms_r5": "cms_aod", "cms_r7": "cms_miniaod"}[backend]
        coll = "Jets" if key == "atlas" else "Muons"
        q = RD._dataset().SelectMany("lambda e: e.%s('b').Select(lambda j: j.pt())" % coll).AsROOTTTree("f.root", "t", ["pt"])
        info, files = RD.translate(q, key)
        self.main_script = info.main_script
        for n, t in files.items():
            p = os.path.join(self.root, "scripts", n)
            with open(p, "w") as f:
                f.write(t)
            if n == info.main_script:
                os.chmod(p, 0o755)
        with open(os.path.join(self.root, "scripts", "filelist.txt"), "w") as f:
            f.write("/data/default1.root\n/data/default2.root\n")
        self.env_files = {"atlas": ["home/atlas/release_setup.sh", "platform/setup.sh"], "cms_r5": ["opt/cms/entrypoint.sh"], "cms_r7": ["opt/cms/entrypoint.sh"]}[backend]
        self.set_env_files(None)
        self.run_id = 0

    def set_env_files(self, failing):
        for e in self.env_files:
            with open(os.path.join(self.root, e), "w") as f:
                f.write("# environment setup stand-in\necho sourced %s >> /log\n%s\n" % (e, "false" if failing == e else "true"))

    def fresh(self):
        for d in ("work", "results", "o1", "o2"):
            p = os.path.join(self.root, d)
            shutil.rmtree(p)
            os.makedirs(p)

    def run(self, args, fail=""):
        self.run_id += 1
        log = os.path.join(self.root, "log")
        open(log, "w").close()
        inner = "cd /work && exec /scripts/%s %s" % (self.main_script, " ".join(args))
        script = ("set -e; R=%s; for d in usr etc dev; do mount --bind /$d $R/$d; done; "
                  "exec chroot $R /usr/bin/env -i PATH=/stubs:/usr/bin:/bin HOME=/tmp FAIL=%s RUNID=%d AnalysisBaseExternals_PLATFORM=/platform /bin/bash -c '%s'"
                  % (self.root, fail, self.run_id, inner))
        p = subprocess.run(["unshare", "--mount", "bash", "-c", script], capture_output=True, text=True, timeout=120)
        calls = [ln.split("|") for ln in open(log).read().splitlines()]
        return p.returncode, calls, self.run_id, (p.stdout + p.stderr)[-600:]

    def read(self, rel):
        p = os.path.join(self.root, rel.lstrip("/"))
        return open(p).read() if os.path.isfile(p) else None

    def close(self):
        shutil.rmtree(self.root, ignore_errors=True)


def tool_names(calls):
    return [c[0] for c in calls if not c[0].startswith("sourced")]


def built(backend, calls):
    t = tool_names(calls)
    return ("make" in t and "cmake" in t) if backend == "atlas" else ("scram" in t and "mkedanlzr" in t)


def ran(backend, calls):
    t = tool_names(calls)
    return ("python" in t) if backend == "atlas" else ("cmsRun" in t)


def expected_output_path(dest):
    return dest.rstrip("/") + "/ANALYSIS.root" if dest in ("/results", "/o1", "/o2") else dest


def check_backend(backend, scratch):
    evals, bad = 0, None
    box = Box(backend, scratch)
    samples = []

    def fail(msg, case):
        nonlocal bad
        if not bad:
            bad = ("%s runner.sh: %s" % (backend, msg), dict(script=backend, **case))

    try:
        # ---- flags -------------------------------------------------------------------------------------------------
        for c, r, d, o in itertools.product((0, 1), repeat=4):
            for odest in (("/o1",) if not o else ("/o1", "/o2/out.root")):
                box.fresh()
                prior = None
                if r:
                    rc0, calls0, _, out0 = box.run(["-c"])
                    if rc0 != 0:
                        fail("-c (preparing a build for -r) exited %d: %s" % (rc0, out0), dict(args=["-c"]))
                        continue
                    prior = True
                args = (["-c"] if c else []) + (["-r"] if r else []) + (["-d", "/data/only.root"] if d else []) + (["-o", odest] if o else [])
                rc, calls, rid, out = box.run(args)
                evals += 1
                if len(samples) < 3 and (d or o):
                    samples.append(dict(script=backend, args=args, after_build=bool(prior), exit=rc, tools=tool_names(calls)))
                case = dict(args=args, after_build=bool(prior))
                dest = expected_output_path(odest if o else "/results")
                content = box.read(dest)
                want_build = not r
                want_run = not c
                if c and r:
                    # -c: do not run, -r: do not build -- nothing to do; only the negative facts are demanded
                    if ran(backend, calls) or built(backend, calls):
                        fail("with -c -r something was built or run: %r" % tool_names(calls), case)
                    if content is not None:
                        fail("with -c -r an output appeared at %s" % dest, case)
                    continue
                if rc != 0:
                    fail("exit %d for flags %r: %s" % (rc, args, out), case)
                    continue
                if built(backend, calls) != want_build:
                    fail("flags %r: build steps %s" % (args, "missing" if want_build else "executed although -r was given"), case)
                if ran(backend, calls) != want_run:
                    fail("flags %r: the job was %s" % (args, "not run" if want_run else "run although -c was given"), case)
                if want_run:
                    want_in = "/data/only.root\n" if d else "/data/default1.root\n/data/default2.root\n"
                    if content is None:
                        fail("flags %r: exit 0 but no output at %s" % (args, dest), case)
                    elif content != "RUN %d\n%s" % (rid, want_in):
                        fail("flags %r: output at %s is %r, expected this run's job output on inputs %r" % (args, dest, content, want_in), case)
                elif content is not None:
                    fail("flags %r: build only, but an output appeared at %s" % (args, dest), case)
        # ---- malformed command lines ------------------------------------------------------------------------------------
        for args, want in ((["-x"], 10), (["-c", "-z"], 10), (["stray"], 1), (["-c", "stray", "more"], 1), (["-d"], 10)):
            box.fresh()
            rc, calls, rid, out = box.run(args)
            evals += 1
            if rc != want:
                fail("arguments %r: exit %d, expected %d" % (args, rc, want), dict(args=args))
            if tool_names(calls):
                fail("arguments %r: tools were run before the refusal: %r" % (args, tool_names(calls)), dict(args=args))
        # ---- single-step failures -----------------------------------------------------------------------------------------
        tools = TOOLS["atlas" if backend == "atlas" else "cms"]
        faults = [("tool", t) for t in tools if t != "sudo"] + [("env", e) for e in box.env_files] + [("copy", None)]
        for mode in ("full", "rerun"):
            for kind, what in faults:
                box.fresh()
                box.set_env_files(None)
                if mode == "rerun":
                    rc0, _, _, out0 = box.run(["-c"])
                    if rc0 != 0:
                        fail("-c exited %d: %s" % (rc0, out0), dict(args=["-c"]))
                        continue
                    if kind == "tool" and what in ("cmake", "make", "mkedanlzr", "scram"):
                        continue  # build tools are not invoked by -r
                args = (["-r"] if mode == "rerun" else []) + ["-o", "/o1"]
                dest = "/o1/ANALYSIS.root"
                if kind == "copy":
                    args = (["-r"] if mode == "rerun" else []) + ["-o", "/no/such/dir/out.root"]
                    dest = "/no/such/dir/out.root"
                if kind == "env":
                    box.set_env_files(what)
                rc, calls, rid, out = box.run(args, fail=what if kind == "tool" else "")
                box.set_env_files(None)
                evals += 1
                case = dict(args=args, failing_step=what or "final copy", mode=mode)
                if kind == "tool" and what not in tool_names(calls):
                    continue  # the step is not part of this script's path
                content = box.read(dest)
                if rc == 0:
                    fail("step %s failed but the script exited 0 (%s run)" % (what or "final copy", mode), case)
                if content is not None and content.startswith("RUN %d\n" % rid):
                    fail("step %s failed but a fresh output was left at %s" % (what or "final copy", dest), case)
        # ---- invocation sequences -----------------------------------------------------------------------------------------
        for first in (["-c"], []):
            box.fresh()
            rc, calls, rid0, out = box.run(first)
            seq = [first]
            if rc != 0:
                fail("%r exited %d: %s" % (first, rc, out), dict(sequence=seq))
                continue
            for inp, dst in ((("/data/A.root", "/o1") if first else ("/data/B.root", "/o2")), ("/data/B.root", "/o2/second.root"), ("/data/C.root", "/o1")):
                args = ["-r", "-d", inp, "-o", dst]
                seq = seq + [args]
                rc, calls, rid, out = box.run(args)
                evals += 1
                dest = expected_output_path(dst)
                content = box.read(dest)
                if rc != 0:
                    fail("sequence %r: exit %d: %s" % (seq, rc, out), dict(sequence=seq))
                elif built(backend, calls):
                    fail("sequence %r: -r rebuilt" % (seq,), dict(sequence=seq))
                elif content != "RUN %d\n%s\n" % (rid, inp):
                    fail("sequence %r: output at %s is %r, expected this run's output on %s only" % (seq, dest, content, inp), dict(sequence=seq))
    finally:
        box.close()
    results.append(dict(name="C16/%s/bounded:runner_contract" % backend, kind="bounded", status="violation" if bad else "ok", evaluations=evals, distinct=evals, exhaustive=True,
                        bound="16 flag subsets (x2 destinations with -o), 5 malformed command lines, every single-step failure x {full, -r}, 2 invocation sequences of 4",
                        detail=bad[0] if bad else "", input=bad[1] if bad else None, samples=samples))


scratch = os.environ.get("VERIF_SCRATCH") or None
for be in ("atlas", "cms_r5", "cms_r7"):
    try:
        check_backend(be, scratch)
    except Exception as e:  # noqa
        import traceback
        results.append(dict(name="C16/%s/bounded:runner_contract" % be, kind="bounded", status="undecided", detail="crashed: %r %s" % (e, traceback.format_exc()[-900:])))
print(json.dumps(dict(results=results)))
